#!/usr/bin/env python3
"""Developer tool: run every check (native variants by default) against a behaviour-changing but property-preserving change.

  tools/benign_run.py <repo> <patch.diff> <out.json> [--only ubchk[,bmi2,...]] [IDs...]

Applies the patch to <repo> (the tree the harness of THIS checkout is built against), runs ./check for each property,
restores the tree. Any exit code other than 0 is a false alarm (1) or a lost verdict (2) to be examined.
"""
import json, os, subprocess, sys, time
ROOT = os.path.dirname(os.path.dirname(os.path.abspath(__file__)))


def sh(cmd, cwd=None, timeout=7200):
    p = subprocess.run(cmd, cwd=cwd, shell=True, stdout=subprocess.PIPE, stderr=subprocess.STDOUT, text=True, timeout=timeout)
    return p.returncode, p.stdout


a = sys.argv[1:]
repo, patch, outf = a[0], os.path.abspath(a[1]), a[2]
a = a[3:]
only = None
if a and a[0] == "--only":
    only = a[1]
    a = a[2:]
ids = a or ["C%02d" % i for i in range(1, 21)]
assert sh("git -C %s status --porcelain" % repo)[1].strip() == "", repo + " not clean"
rc, out = sh("git -C %s apply %s" % (repo, patch))
assert rc == 0, out
res = {}
try:
    for pid in ids:
        t0 = time.time()
        rc, out = sh("VERIF_EVIDENCE_DIR=/tmp/benign-evidence ./check %s%s" % (pid, (" --only " + only) if only else ""), cwd=ROOT)
        sigs = [l.strip()[:400] for l in out.splitlines() if l.strip().startswith("violated:")]
        inc = [l.strip()[:400] for l in out.splitlines() if l.startswith("INCONCLUSIVE")]
        res[pid] = dict(rc=rc, signatures=sigs[:8], inconclusive=inc[:3], wall_s=round(time.time() - t0, 1))
        print(pid, "rc=%d" % rc, *(sigs[:4] + inc[:2]), sep="\n    " if rc else " ")
        sys.stdout.flush()
finally:
    sh("git -C %s checkout -- ." % repo)
    sh("git -C %s clean -fdq src" % repo)
json.dump(res, open(outf, "w"), indent=1)
