//! Worker context (cases, budgets, panic capture) and the shared traversal engine:
//! playouts and complete move trees over lock-stepped (library board, model position) pairs.
use crate::conv::*;
use crate::refchess::*;
use crate::report::*;
use crate::rng::Rng;
use crate::synth::{self, Density, Start};
use chess::{Board, ChessMove};
use std::io::Write;
use std::panic::{catch_unwind, AssertUnwindSafe};
use std::str::FromStr;

#[derive(Clone, Copy, PartialEq, Debug)]
pub enum Tier {
    Quick,
    Thorough,
}
#[derive(Clone, Copy, PartialEq, Debug)]
pub enum Variant {
    /// native optimised build with debug assertions / UB precondition checks on
    Native,
    /// under the Miri interpreter: tiny budgets
    Miri,
    /// native under ASan / valgrind: medium budgets, no debug assertions
    San,
}

pub struct Ctx {
    pub prop: String,
    pub tier: Tier,
    pub variant: Variant,
    pub seed: u64,
    pub shard: usize,
    pub nshards: usize,
    pub only_case: Option<u64>,
    pub out_dir: Option<String>,
    /// free-form sub-mode (e.g. "replay")
    pub mode: String,
    pub arg: Option<String>,
}

impl Ctx {
    /// pick a budget by tier/variant
    pub fn budget(&self, quick: u64, thorough: u64, miri: u64, san: u64) -> u64 {
        match self.variant {
            Variant::Miri => {
                if self.tier == Tier::Thorough {
                    miri * 4
                } else {
                    miri
                }
            }
            Variant::San => san,
            Variant::Native => match self.tier {
                Tier::Quick => quick,
                Tier::Thorough => thorough,
            },
        }
    }

    /// Run cases `0..n` of this shard (global case id = k * nshards + shard), each with its own RNG
    /// stream and panic capture.  Prints a marker before each case so that a non-unwinding abort can
    /// be attributed by the driver.
    pub fn cases<F: FnMut(u64, &mut Rng, &mut Report)>(&self, rep: &mut Report, stream: &str, n: u64, mut f: F) {
        let so = std::io::stdout();
        for k in 0..n {
            let gid = k * self.nshards as u64 + self.shard as u64;
            if let Some(c) = self.only_case {
                if c != gid {
                    continue;
                }
            }
            {
                let mut o = so.lock();
                let _ = writeln!(o, "#{} {}", stream, gid);
                let _ = o.flush();
            }
            rep.cur_case = gid;
            let mut rng = Rng::derive(self.seed, &format!("{}/{}", self.prop, stream), 0, gid);
            let r = catch_unwind(AssertUnwindSafe(|| f(gid, &mut rng, rep)));
            if let Err(e) = r {
                let msg = if let Some(s) = e.downcast_ref::<&str>() {
                    s.to_string()
                } else if let Some(s) = e.downcast_ref::<String>() {
                    s.clone()
                } else {
                    "non-string panic".to_string()
                };
                if msg.starts_with("HARNESS:") {
                    rep.notes.push(format!("harness-error stream={} case={}: {}", stream, gid, msg));
                    rep.count("harness_errors");
                } else {
                    rep.violation(&format!("{}/panic/{}", self.prop, stream), format!("panic in stream={} case={}: {}", stream, gid, msg));
                }
            }
        }
    }
}

pub fn silence_panics() {
    std::panic::set_hook(Box::new(|info| {
        // keep stderr small but informative: one line per panic
        let loc = info.location().map(|l| format!("{}:{}", l.file(), l.line())).unwrap_or_default();
        let msg = if let Some(s) = info.payload().downcast_ref::<&str>() {
            s.to_string()
        } else if let Some(s) = info.payload().downcast_ref::<String>() {
            s.clone()
        } else {
            String::new()
        };
        if msg.starts_with("You cannot create a CacheTable") {
            return; // expected by the C19 construction workload
        }
        let short: String = msg.chars().take(300).collect();
        eprintln!("panic at {}: {}", loc, short);
    }));
}

// ------------------------------------------------------------------------------------------------

/// What a node monitor sees: a quiescent point after a public call has returned.
pub struct Node<'a> {
    pub b: &'a Board,
    pub p: &'a RPos,
    pub legal: &'a [RMove],
    pub ply: usize,
    /// the move that led here and the node before (None at the root or after a null move)
    pub prev: Option<(&'a Board, &'a RPos, RMove)>,
    pub after_null: bool,
    pub tag: &'static str,
    /// true when `b` was produced incrementally (make_move / null_move), false when parsed
    pub incremental: bool,
    /// the library's successor no longer agrees with the model's (placement / side / rights): the node is
    /// still shown once to monitors that judge the library's own view of the board; the walk stops here
    pub diverged: bool,
}

pub trait NodeMon {
    fn begin(&mut self, _start: &Start, _rep: &mut Report) {}
    fn node(&mut self, n: &Node, rep: &mut Report, rng: &mut Rng);
    /// how the walker should apply moves: false = make_move_new, true = make_move into a dirty board
    fn wants_null_moves(&self) -> u64 {
        0
    }
    /// walk along the moves the library generates rather than the model's legal moves
    fn follows_library(&self) -> bool {
        false
    }
    /// Properties about "the position reached by a sequence of legal moves" (move generation, status,
    /// SAN ...) stay meaningful when the library's board has the right men on the right squares but
    /// carries wrong castling rights from an earlier move: the playout then goes on (model = the truth
    /// reached, library = its own board) instead of stopping at the first disagreement.
    fn through_rights_divergence(&self) -> bool {
        false
    }
}

pub fn move_features(p: &RPos, m: RMove, rep: &mut Report) {
    if p.is_ep_capture(m) {
        rep.count("f_ep_captures");
    }
    if p.is_castle(m) {
        let side = if m.to > m.from { "k" } else { "q" };
        rep.count(&format!("f_castle_{}{}", if p.stm == WHITE { "w" } else { "b" }, side));
    }
    if m.promo != 0 {
        rep.count(&format!("f_promo_{}", ['?', 'p', 'n', 'b', 'r', 'q', 'k'][m.promo as usize]));
    }
    if p.sq[m.to as usize] != 0 {
        rep.count("f_captures");
    }
    if p.is_double_push(m) {
        rep.count("f_double_pushes");
    }
    if p.pinned() & (1u64 << m.from) != 0 {
        rep.count("f_pinned_piece_moves");
    }
}

pub fn node_features(p: &RPos, legal: &[RMove], rep: &mut Report) {
    let ch = p.checkers().count_ones();
    if ch == 1 {
        rep.count("f_single_checks");
    } else if ch >= 2 {
        rep.count("f_double_checks");
    }
    if legal.is_empty() {
        rep.count(if ch > 0 { "f_checkmates" } else { "f_stalemates" });
    }
    if p.ep.is_some() {
        rep.count("f_ep_state_std");
        if p.ep_pawn_adjacent() {
            if p.ep_legal_capture_exists() {
                rep.count("f_ep_capturable");
            } else {
                rep.count("f_ep_adjacent_not_legal");
            }
        }
    }
    rep.count(&format!("f_rights_{}", p.castle));
    rep.count(if p.stm == WHITE { "f_stm_white" } else { "f_stm_black" });
}

/// Build the library board for a start position (through standard FEN text).
pub fn setup(start: &Start, rep: &mut Report) -> Option<Board> {
    match Board::from_str(&start.pos.fen()) {
        Ok(b) => Some(b),
        Err(e) => {
            rep.count("setup_rejected");
            rep.notes.push(format!("library rejected model-valid start {} ({:?})", start.pos.fen(), e));
            None
        }
    }
}

/// what the output board of `make_move` holds before the call: anything at all - here the source itself
fn start_board_filler(b: &Board) -> Board {
    *b
}

fn pick_move(rng: &mut Rng, p: &RPos, legal: &[RMove]) -> RMove {
    if rng.chance(1, 2) {
        // prefer rare move kinds
        let special: Vec<RMove> = legal
            .iter()
            .cloned()
            .filter(|m| p.is_ep_capture(*m) || p.is_castle(*m) || m.promo != 0 || p.is_double_push(*m) && rng.chance(1, 3))
            .collect();
        if !special.is_empty() && rng.chance(3, 4) {
            return *rng.pick(&special);
        }
        let caps: Vec<RMove> = legal.iter().cloned().filter(|m| p.sq[m.to as usize] != 0).collect();
        if !caps.is_empty() && rng.chance(1, 2) {
            return *rng.pick(&caps);
        }
    }
    *rng.pick(legal)
}

pub struct WalkCfg {
    pub max_plies: usize,
    /// probability (per 1000) of inserting a null move when not in check
    pub null_per_mille: u64,
    /// stop the playout if the library and the model stop agreeing (avoids cascades)
    pub stop_on_divergence: bool,
    /// choose among the moves the *library* generates (C05: "any sequence of generated moves"); the model
    /// then follows mechanically and may stop being meaningful - monitors must not rely on it
    pub follow_library: bool,
    /// probability (per 1000) of an echo step at a node (look-alike positions, then the node again)
    pub echo_per_mille: u64,
}

/// One playout from `start`, calling `mon` at every node (including the nodes of the prelude).
/// Returns number of nodes visited.
pub fn playout(start: &Start, cfg: &WalkCfg, rng: &mut Rng, mon: &mut dyn NodeMon, rep: &mut Report) -> usize {
    let mut b = match setup(start, rep) {
        Some(b) => b,
        None => return 0,
    };
    let mut p = start.pos.clone();
    mon.begin(start, rep);
    rep.count(&format!("starts_{}", start.tag));
    let mut prev: Option<(Board, RPos, RMove)> = None;
    let mut after_null = false;
    let mut incremental = false;
    let mut nodes = 0;
    for ply in 0..cfg.max_plies + start.prelude.len() {
        let legal = p.legal_moves();
        node_features(&p, &legal, rep);
        {
            let n = Node {
                b: &b,
                p: &p,
                legal: &legal,
                ply,
                prev: prev.as_ref().map(|(pb, pp, m)| (pb, pp, *m)),
                after_null,
                tag: start.tag,
                incremental,
                diverged: false,
            };
            mon.node(&n, rep, rng);
        }
        nodes += 1;
        // ---- echo: look-alike positions (same placement; other side to move, fewer castling rights, no e.p.
        // state) are judged in between, then this node once more.  State that survives between calls and is
        // keyed by part of the position (a memo, a thread-local cache, a reused scratch object) answers for the
        // wrong position on one of these visits; a library without such state is visited a few more times.
        if cfg.echo_per_mille > 0 && rng.chance(cfg.echo_per_mille, 1000) {
            let mut alikes: Vec<RPos> = vec![];
            let mut q = p.null();
            if q.valid() {
                alikes.push(q.clone());
            }
            if p.castle != 0 {
                q = p.clone();
                q.castle &= rng.next() as u8 & 15;
                if q.castle != p.castle {
                    alikes.push(q.clone());
                    let mut q2 = q.null();
                    if rng.chance(1, 2) && q2.valid() {
                        q2.castle = q.castle;
                        alikes.push(q2);
                    }
                }
            }
            if p.ep.is_some() {
                q = p.clone();
                q.ep = None;
                alikes.push(q);
            }
            for a in alikes.iter() {
                if !a.valid() {
                    continue;
                }
                if let Ok(ab) = Board::from_str(&a.fen()) {
                    let al = a.legal_moves();
                    let n = Node { b: &ab, p: a, legal: &al, ply: 0, prev: None, after_null: false, tag: "echo", incremental: false, diverged: false };
                    rep.count("ev_echo_lookalike_nodes");
                    mon.node(&n, rep, rng);
                }
            }
            let n = Node {
                b: &b,
                p: &p,
                legal: &legal,
                ply,
                prev: prev.as_ref().map(|(pb, pp, m)| (pb, pp, *m)),
                after_null,
                tag: start.tag,
                incremental,
                diverged: false,
            };
            rep.count("ev_echo_revisits");
            mon.node(&n, rep, rng);
        }
        if legal.is_empty() && !cfg.follow_library {
            break;
        }
        // null move now and then
        if cfg.null_per_mille > 0 && ply >= start.prelude.len() && p.checkers() == 0 && rng.chance(cfg.null_per_mille, 1000) {
            if let Some(nb) = b.null_move() {
                rep.count("f_null_moves_in_history");
                b = nb;
                p = p.null();
                prev = None;
                after_null = true;
                incremental = true;
                continue;
            }
        }
        let m = if ply < start.prelude.len() {
            start.prelude[ply]
        } else if cfg.follow_library {
            let lms: Vec<RMove> = lib_moves(&b).into_iter().map(model_move).collect();
            if lms.is_empty() {
                break;
            }
            pick_move(rng, &p, &lms)
        } else {
            pick_move(rng, &p, &legal)
        };
        let lm = lib_move(m);
        if cfg.stop_on_divergence && !cfg.follow_library {
            // only play moves both sides call legal
            if !b.legal(lm) {
                rep.count("diverged_stop");
                break;
            }
        }
        move_features(&p, m, rep);
        rep.event(format!("{} {}", p.fen(), m.uci()));
        // both move-application entry points take part in building histories
        let nb = if rng.chance(1, 2) {
            b.make_move_new(lm)
        } else {
            rep.count("f_steps_via_make_move");
            let mut out = start_board_filler(&b);
            b.make_move(lm, &mut out);
            out
        };
        let np = p.make(m);
        let lib_view = read_board(&nb);
        let soft = mon.through_rights_divergence() && lib_view.sq[..] == np.sq[..] && lib_view.stm == np.stm;
        if soft && lib_view.castle != np.castle {
            rep.count("diverged_in_rights_only_continued");
        }
        if cfg.stop_on_divergence && !cfg.follow_library && !soft && !same_core(&lib_view, &np) {
            rep.count("diverged_stop");
            let n = Node { b: &nb, p: &np, legal: &[], ply: ply + 1, prev: Some((&b, &p, m)), after_null: false, tag: start.tag, incremental: true, diverged: true };
            mon.node(&n, rep, rng);
            break;
        }
        prev = Some((b, p, m));
        b = nb;
        p = np;
        after_null = false;
        incremental = true;
    }
    nodes
}

/// Complete move tree to `depth` from `start` (after its prelude): every node is visited.
pub fn tree(start: &Start, depth: usize, rng: &mut Rng, mon: &mut dyn NodeMon, rep: &mut Report) -> usize {
    tree_opt(start, depth, false, rng, mon, rep)
}

/// `follow_library`: expand the moves the library generates instead of the model's legal moves
pub fn tree_opt(start: &Start, depth: usize, follow_library: bool, rng: &mut Rng, mon: &mut dyn NodeMon, rep: &mut Report) -> usize {
    let mut b = match setup(start, rep) {
        Some(b) => b,
        None => return 0,
    };
    let mut p = start.pos.clone();
    mon.begin(start, rep);
    for m in &start.prelude {
        b = b.make_move_new(lib_move(*m));
        p = p.make(*m);
    }
    fn rec(b: &Board, p: &RPos, prev: Option<(&Board, &RPos, RMove)>, d: usize, ply: usize, tag: &'static str, fl: bool, rng: &mut Rng, mon: &mut dyn NodeMon, rep: &mut Report) -> usize {
        let legal = p.legal_moves();
        node_features(p, &legal, rep);
        let n = Node { b, p, legal: &legal, ply, prev, after_null: false, tag, incremental: ply > 0, diverged: false };
        mon.node(&n, rep, rng);
        let mut cnt = 1;
        if d == 0 {
            return cnt;
        }
        let expand: Vec<RMove> = if fl { lib_moves(b).into_iter().map(model_move).collect() } else { legal.clone() };
        for m in expand.iter() {
            let lm = lib_move(*m);
            if !fl && !b.legal(lm) {
                rep.count("diverged_stop");
                continue;
            }
            move_features(p, *m, rep);
            let nb = if rng.chance(1, 2) {
                b.make_move_new(lm)
            } else {
                rep.count("f_steps_via_make_move");
                let mut out = start_board_filler(b);
                b.make_move(lm, &mut out);
                out
            };
            let np = p.make(*m);
            if !fl && !same_core(&read_board(&nb), &np) {
                rep.count("diverged_stop");
                let n = Node { b: &nb, p: &np, legal: &[], ply: ply + 1, prev: Some((b, p, *m)), after_null: false, tag, incremental: true, diverged: true };
                mon.node(&n, rep, rng);
                continue;
            }
            cnt += rec(&nb, &np, Some((b, p, *m)), d - 1, ply + 1, tag, fl, rng, mon, rep);
        }
        cnt
    }
    rec(&b, &p, None, depth, 0, start.tag, follow_library, rng, mon, rep)
}

/// The standard workload mix W1-W4 for position-walking monitors: returns a start for case `k`.
pub fn mixed_start(rng: &mut Rng, _k: u64, corpus: &[RPos]) -> Start {
    match rng.below(9) {
        8 => match synth::synth_ep_invented(rng) {
            Some(s) => s,
            None => synth::synth_ep(rng),
        },
        0 | 1 => Start::plain(corpus[rng.below(corpus.len())].clone(), "corpus"),
        2 => Start::plain(synth::synth(rng, Density::Sparse), "synth_sparse"),
        3 => {
            let d = *rng.pick(&[Density::Medium, Density::Crowded]);
            Start::plain(synth::synth(rng, d), "synth_dense")
        }
        4 => synth::synth_ep(rng),
        _ => {
            let id = rng.below(synth::N_SCEN);
            match synth::scenario_retry(rng, id) {
                Some(s) => s,
                None => Start::plain(corpus[rng.below(corpus.len())].clone(), "corpus"),
            }
        }
    }
}

pub fn mv(m: ChessMove) -> String {
    format!("{}", m)
}
