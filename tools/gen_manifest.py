#!/usr/bin/env python3
"""Regenerate MANIFEST.json from the per-property table in ./check (developer tool)."""
import json, os, runpy
ROOT = os.path.dirname(os.path.dirname(os.path.abspath(__file__)))
g = runpy.run_path(os.path.join(ROOT, "check"), run_name="check_module")
PROPS = g["PROPS"]
tech = {
 'C01':'differential oracle: library move generation and legality query vs independent mailbox reference model over random playouts, complete move trees, synthesised and directed positions; UB-check build + Miri smoke (+ASan thorough)',
 'C02':'differential oracle on successors (both entry points, dirty/uninitialised outputs) vs reference model; UB-check build + Miri smoke (+ASan thorough)',
 'C03':'runtime invariants at quiescent points + from-scratch twin comparison + reference-model attack/pin oracle',
 'C04':'exhaustive execution of small endgames + terminal positions in play vs reference-model status oracle',
 'C05':'history monitor over long playouts and move trees (validity, monotone rights/material)',
 'C06':'independent FEN lexer/standard writer as oracle over recorded positions; round-trip monitors',
 'C07':'hostile-input workload (mutated/random text, arbitrary and crowded builder states) under panic capture, UB-check build, Miri (+ASan thorough); necessary-condition oracle on accepted boards',
 'C08':'recorded (position,hash) event log with unique position ids; online + offline path-independence checker; transposition workloads',
 'C09':'single-component sibling oracle + offline collision scan over merged event logs',
 'C10':'online trace automaton (model game) over adversarial action sequences',
 'C11':'online trace automaton with repetition list and half-move clock over long reversible games',
 'C12':'independent SAN writer/strict reader as oracle over all spellings of all legal moves + fuzzed text under panic capture',
 'C13':'exhaustive execution of all 20480 moves/64 squares + adversarial text under panic capture; Miri smoke',
 'C14':'online trace automaton of the iterator contract over scripted call sequences; retrospective length-claim checking',
 'C15':'exhaustive execution of every ray-occupancy per square against a ray-walking oracle, in the default and +bmi2 builds with UB checks; Miri sample',
 'C16':'exhaustive execution of geometry functions against coordinate definitions; Miri',
 'C17':'metamorphic oracle (mirror images) with lock-step parallel playouts',
 'C18':'from-scratch twin comparison + reference-model check oracle at every node and interleaved in histories',
 'C19':'model-based op-sequence monitor (Vec model) + Miri / UB-check build (+ASan, valgrind memcheck thorough) for out-of-bounds access',
 'C20':'bit-by-bit set-model oracle over exhaustive singletons, structured and random values; Miri smoke',
}
hook_commits = [l.split()[0] for l in os.popen("git -C /repo log --oneline --grep='^verif hook'").read().splitlines()]
checks = []
FUZZ = g.get('FUZZ_TARGETS', {})
for pid in sorted(PROPS):
    c = PROPS[pid]
    if pid in FUZZ and 'libFuzzer' not in tech[pid]:
        tech[pid] += '; thorough tier adds coverage-guided libFuzzer+ASan (' + ', '.join(t[0] for t in FUZZ[pid]) + ' target) with the same oracle'
    checks.append(dict(
        property_id=pid,
        quick_cmd="./check %s --tier quick" % pid,
        thorough_cmd="./check %s --tier thorough" % pid,
        evidence_file="evidence/%s.json" % pid,
        replay_cmd_template="./check %s --replay {path}" % pid,
        engine="harness",
        level_claimed=dict(category="exploration",
            text="Runtime monitoring: the property held on every execution the workloads produced (counts, features and samples in the evidence file); %s. Nothing is claimed about inputs or histories that were not driven." % tech[pid],
            design_ref="DESIGN.md section 3, %s" % pid),
        level_note="Trusted base: the independent mailbox reference model / coordinate-level oracles in harness/src (model self-checked against published perft numbers at every worker start), rustc/Miri/ASan, and the driver's attribution of process aborts to the last case marker. " + " ".join(c['assumptions']),
        technique=tech[pid]))
m = dict(version=1,
  setup_cmd="./check --setup",
  hooks=dict(guard="cfg(chess_verif)", enable='RUSTFLAGS="--cfg chess_verif" (set by ./check for every variant it builds)',
     baseline_off_cmd="cd /repo && cargo test --workspace --no-fail-fast --offline",
     source_commits=hook_commits, add_only=True),
  engines=[dict(name="harness", path="harness", serves_properties=sorted(PROPS), kind_free_text="Rust worker (bin mon) with reference model, workloads and one monitor per property, built from /repo's working tree in several instrumented variants (UB-check, Miri, ASan, +bmi2, valgrind); python driver ./check shards it over 16 processes, merges event logs, applies coverage gates and known findings, writes evidence")],
  checks=checks,
  notes="Verdicts are three-valued: exit 0 held on what was observed, exit 1 VIOLATION with replay file, exit 2 INCONCLUSIVE (harness/build problem, watchdog, coverage gate). Genuine defects found and repaired are listed in KNOWN_FINDINGS.txt (fixed: lines) and DESIGN.md section 6.",
  not_applicable=[])
json.dump(m, open(os.path.join(ROOT, "MANIFEST.json"), "w"), indent=1)
print("wrote MANIFEST.json with", len(checks), "checks; hook commits", hook_commits)
