#![no_main]
//! C13 under libFuzzer + ASan: arbitrary text -> ChessMove::from_str / Square::from_str.
use harness::report::Report;
use libfuzzer_sys::fuzz_target;

fuzz_target!(|data: &[u8]| {
    let text = String::from_utf8_lossy(data);
    let mut rep = Report::new("C13");
    harness::mon_tables::c13_text(&mut rep, &text);
    if rep.total_violations() > 0 {
        let v = &rep.violations[0];
        panic!("VIOLATION {} :: {}", v.sig, v.detail);
    }
});
