//! C12: SAN parsing.  An independent SAN writer (all admissible spellings) and an independent strict
//! reader (what a well-formed spelling denotes) decide, for every generated text, whether the
//! library must return exactly one move, must reject, or is not judged.
use crate::conv::*;
use crate::corpus::corpus_positions;
use crate::mon_tables::{random_text, WEIRD};
use crate::mon_walk::pack;
use crate::refchess::*;
use crate::report::*;
use crate::rng::Rng;
use crate::walk::*;
use chess::{Board, ChessMove};
use std::panic::{catch_unwind, AssertUnwindSafe};

#[derive(Clone, Debug, PartialEq)]
pub struct Parts {
    pub piece: u8,
    pub src_file: Option<u8>,
    pub src_rank: Option<u8>,
    pub takes: bool,
    pub dest: Sq,
    pub promo: u8,
    pub suffix: Option<char>,
    pub ep_suffix: bool,
}

#[derive(Clone, Debug, PartialEq)]
pub enum San {
    Castle { long: bool, suffix: Option<char> },
    Normal(Parts),
}

pub fn render(s: &San) -> String {
    match s {
        San::Castle { long, suffix } => {
            let mut t = if *long { "O-O-O".to_string() } else { "O-O".to_string() };
            if let Some(c) = suffix {
                t.push(*c);
            }
            t
        }
        San::Normal(p) => {
            let mut t = String::new();
            match p.piece {
                N => t.push('N'),
                B => t.push('B'),
                R => t.push('R'),
                Q => t.push('Q'),
                K => t.push('K'),
                _ => {}
            }
            if let Some(f) = p.src_file {
                t.push((b'a' + f) as char);
            }
            if let Some(r) = p.src_rank {
                t.push((b'1' + r) as char);
            }
            if p.takes {
                t.push('x');
            }
            t.push_str(&sq_name(p.dest));
            match p.promo {
                N => t.push('N'),
                B => t.push('B'),
                R => t.push('R'),
                Q => t.push('Q'),
                _ => {}
            }
            if let Some(c) = p.suffix {
                t.push(c);
            }
            if p.ep_suffix {
                t.push_str(" e.p.");
            }
            t
        }
    }
}

#[derive(Clone, Debug, PartialEq)]
pub enum Verdict {
    MustOk(RMove),
    MustErr,
    Abstain(&'static str),
}

/// '+' if the move gives check, '#' if it mates, None otherwise
pub fn true_suffix(p: &RPos, m: RMove) -> Option<char> {
    let n = p.make(m);
    if n.in_check(n.stm) {
        if n.has_legal_move() {
            Some('+')
        } else {
            Some('#')
        }
    } else {
        None
    }
}

/// The independent strict reader: what does this well-formed spelling denote in `p`?
pub fn judge(p: &RPos, legal: &[RMove], s: &San) -> Verdict {
    match s {
        San::Castle { long, suffix } => {
            let home: Sq = if p.stm == WHITE { 4 } else { 60 };
            let m = RMove::new(home, if *long { home - 2 } else { home + 2 }, 0);
            if legal.contains(&m) && p.is_castle(m) {
                if let Some(c) = suffix {
                    if true_suffix(p, m) != Some(*c) {
                        return Verdict::Abstain("wrong-check-suffix");
                    }
                }
                Verdict::MustOk(m)
            } else {
                Verdict::MustErr
            }
        }
        San::Normal(q) => {
            if q.piece == P {
                if q.takes && q.src_file.is_none() {
                    return Verdict::Abstain("pawn-capture-without-file");
                }
                if !q.takes && (q.src_file.is_some() != q.src_rank.is_some()) {
                    return Verdict::Abstain("pawn-push-with-partial-source");
                }
                if q.takes && q.src_file.is_none() && q.src_rank.is_some() {
                    return Verdict::Abstain("pawn-capture-rank-only");
                }
            }
            let mut cands: Vec<RMove> = vec![];
            for m in legal {
                if kind(p.sq[m.from as usize]) != q.piece || m.to != q.dest || m.promo != q.promo {
                    continue;
                }
                if let Some(f) = q.src_file {
                    if m.from & 7 != f {
                        continue;
                    }
                }
                if let Some(r) = q.src_rank {
                    if m.from >> 3 != r {
                        continue;
                    }
                }
                if p.is_castle(*m) {
                    return Verdict::Abstain("king-two-squares-for-castling");
                }
                if p.is_capture(*m) != q.takes {
                    continue;
                }
                cands.push(*m);
            }
            if cands.len() != 1 {
                return Verdict::MustErr;
            }
            let m = cands[0];
            if let Some(c) = q.suffix {
                if true_suffix(p, m) != Some(c) {
                    return Verdict::Abstain("wrong-check-suffix");
                }
            }
            if q.ep_suffix && !p.is_ep_capture(m) {
                return Verdict::Abstain("ep-suffix-on-ordinary-move");
            }
            Verdict::MustOk(m)
        }
    }
}

/// All admissible spellings of legal move `m` (the writer), each tagged with its spelling class.
pub fn spellings(p: &RPos, legal: &[RMove], m: RMove) -> Vec<(San, String)> {
    let mut out = vec![];
    let ts = true_suffix(p, m);
    let suffixes: Vec<Option<char>> = if ts.is_some() { vec![None, ts] } else { vec![None] };
    if p.is_castle(m) {
        for s in suffixes {
            out.push((San::Castle { long: m.to < m.from, suffix: s }, format!("castle{}", if s.is_some() { "+check" } else { "" })));
        }
        return out;
    }
    let piece = kind(p.sq[m.from as usize]);
    let takes = p.is_capture(m);
    let ep = p.is_ep_capture(m);
    let same: Vec<&RMove> = legal.iter().filter(|x| kind(p.sq[x.from as usize]) == piece && x.to == m.to && x.promo == m.promo && !p.is_castle(**x)).collect();
    let (f, r) = (m.from & 7, m.from >> 3);
    let mut dis: Vec<(Option<u8>, Option<u8>, &str)> = vec![];
    if piece == P {
        if takes {
            dis.push((Some(f), None, "file"));
            dis.push((Some(f), Some(r), "full"));
        } else {
            dis.push((None, None, "minimal"));
            dis.push((Some(f), Some(r), "full"));
        }
    } else {
        if same.len() == 1 {
            dis.push((None, None, "minimal"));
        }
        if same.iter().filter(|x| x.from & 7 == f).count() == 1 {
            dis.push((Some(f), None, "file"));
        }
        if same.iter().filter(|x| x.from >> 3 == r).count() == 1 {
            dis.push((None, Some(r), "rank"));
        }
        dis.push((Some(f), Some(r), "full"));
    }
    for (sf, sr, dname) in dis {
        for s in suffixes.iter() {
            let eps: Vec<bool> = if ep { vec![false, true] } else { vec![false] };
            for e in eps {
                let mut class = String::from(dname);
                if same.len() > 1 {
                    class.push_str("-needed");
                }
                if m.promo != 0 {
                    class.push_str("+promo");
                }
                if takes {
                    class.push_str("+capture");
                }
                if s.is_some() {
                    class.push_str("+check");
                }
                if ep {
                    class.push_str(if e { "+ep-with-suffix" } else { "+ep-no-suffix" });
                }
                out.push((San::Normal(Parts { piece, src_file: sf, src_rank: sr, takes, dest: m.to, promo: m.promo, suffix: *s, ep_suffix: e }), class));
            }
        }
    }
    out
}

fn call(b: &Board, text: &str) -> Result<Result<ChessMove, ()>, ()> {
    match catch_unwind(AssertUnwindSafe(|| ChessMove::from_san(b, text))) {
        Ok(Ok(m)) => Ok(Ok(m)),
        Ok(Err(_)) => Ok(Err(())),
        Err(_) => Err(()),
    }
}

/// run one judged text through the library
fn check(b: &Board, p: &RPos, legal: &[RMove], san: &San, class: &str, rep: &mut Report) {
    let text = render(san);
    let v = judge(p, legal, san);
    rep.eval();
    rep.count("op_from_san");
    let r = call(b, &text);
    let r = match r {
        Err(_) => {
            rep.violation("C12/panic", format!("fen={} text={:?}", p.fen(), text));
            return;
        }
        Ok(r) => r,
    };
    if let Ok(m) = r {
        if !legal.contains(&model_move(m)) {
            rep.violation("C12/returned-illegal-move", format!("fen={} text={:?} -> {}", p.fen(), text, m));
            return;
        }
    }
    match v {
        Verdict::MustOk(m) => {
            rep.count("ev_must_accept");
            rep.count(&format!("cls_{}", class));
            match r {
                Ok(got) if model_move(got) == m => {}
                Ok(got) => rep.violation(&format!("C12/wrong-move/{}", class), format!("fen={} text={:?} -> {} but it denotes {}", p.fen(), text, got, m.uci())),
                Err(_) => rep.violation(&format!("C12/rejected-admissible-spelling/{}", class), format!("fen={} text={:?} denotes {} but was rejected", p.fen(), text, m.uci())),
            }
        }
        Verdict::MustErr => {
            rep.count("ev_must_reject");
            rep.count(&format!("rej_{}", class));
            if let Ok(got) = r {
                rep.violation(&format!("C12/accepted-text-denoting-no-unique-move/{}", class), format!("fen={} text={:?} -> {} but it fits no legal move or several", p.fen(), text, got));
            }
        }
        Verdict::Abstain(why) => {
            rep.count(&format!("abst_{}", why));
        }
    }
}

pub struct C12 {
    pub variant: Variant,
    pub prev: Option<(RPos, Vec<RMove>)>,
}

impl C12 {
    pub fn position(&mut self, b: &Board, p: &RPos, legal: &[RMove], rep: &mut Report, rng: &mut Rng, sample: bool) {
        let miri = self.variant == Variant::Miri;
        if legal.is_empty() {
            return;
        }
        rep.seen(hash_bytes(&pack(p, p.ep)));
        let mut shown = vec![];
        let moves: Vec<RMove> = if miri {
            let mut v = legal.to_vec();
            rng.shuffle(&mut v);
            v.truncate(4);
            v
        } else {
            legal.to_vec()
        };
        for m in moves.iter() {
            let sp = spellings(p, legal, *m);
            for (san, class) in sp.iter() {
                // the writer and the reader are independent; they must agree or the harness is wrong
                match judge(p, legal, san) {
                    Verdict::MustOk(x) if x == *m => {}
                    other => panic!("HARNESS: writer/reader disagree on {} in {} : {:?}", render(san), p.fen(), other),
                }
                check(b, p, legal, san, class, rep);
                if sample && shown.len() < 10 {
                    shown.push(render(san));
                }
            }
            // must-reject family derived from this move
            if let Some((San::Normal(base), _)) = sp.iter().find(|(s, _)| matches!(s, San::Normal(_))).cloned() {
                let piece = base.piece;
                let mut variants: Vec<(Parts, &str)> = vec![];
                // every disambiguation shape (under-disambiguated ones come out as MustErr by the reader)
                for (sf, sr) in [(None, None), (Some(m.from & 7), None), (None, Some(m.from >> 3))].iter() {
                    if piece != P {
                        let mut q = base.clone();
                        q.src_file = *sf;
                        q.src_rank = *sr;
                        q.suffix = None;
                        q.ep_suffix = false;
                        variants.push((q, "disambiguation-shape"));
                    }
                }
                // wrong piece letter
                {
                    let mut q = base.clone();
                    q.piece = *rng.pick(&[N, B, R, Q, K, P]);
                    if q.piece != piece {
                        if q.piece == P && q.takes {
                            q.src_file = Some(m.from & 7);
                            q.src_rank = None;
                        } else if q.piece == P {
                            q.src_file = None;
                            q.src_rank = None;
                        }
                        q.suffix = None;
                        q.ep_suffix = false;
                        variants.push((q, "wrong-piece-letter"));
                    }
                }
                // capture flag flipped
                {
                    let mut q = base.clone();
                    q.takes = !q.takes;
                    if q.piece == P {
                        if q.takes {
                            q.src_file = Some(m.from & 7);
                            q.src_rank = None;
                        } else {
                            q.src_file = None;
                            q.src_rank = None;
                        }
                    }
                    q.suffix = None;
                    q.ep_suffix = false;
                    variants.push((q, if base.takes { "quiet-spelling-of-capture" } else { "x-on-quiet-move" }));
                }
                // promotion dropped / added / changed
                {
                    let mut q = base.clone();
                    q.promo = if base.promo != 0 { 0 } else { *rng.pick(&[Q, N, R, B]) };
                    q.suffix = None;
                    q.ep_suffix = false;
                    variants.push((q, if base.promo != 0 { "promotion-letter-missing" } else { "promotion-letter-on-non-promotion" }));
                }
                // wrong source file / rank
                {
                    let mut q = base.clone();
                    q.src_file = Some(rng.below(8) as u8);
                    q.src_rank = if piece == P && !q.takes { Some(rng.below(8) as u8) } else { q.src_rank };
                    q.suffix = None;
                    q.ep_suffix = false;
                    variants.push((q, "random-source-file"));
                }
                // random destination
                {
                    let mut q = base.clone();
                    q.dest = rng.below(64) as u8;
                    q.suffix = None;
                    q.ep_suffix = false;
                    if piece == P && !q.takes {
                        q.src_file = None;
                        q.src_rank = None;
                    }
                    variants.push((q, "random-destination"));
                }
                for (q, class) in variants {
                    check(b, p, legal, &San::Normal(q), class, rep);
                }
            }
        }
        // near misses: pseudo-legal but illegal moves (pinned men, moves that ignore a check, king into attack)
        // spelled as if they were legal; the reader decides what the text denotes among the *legal* moves
        {
            let ps: Vec<RMove> = p.pseudo().into_iter().filter(|x| !legal.contains(x) && !p.is_castle(*x)).collect();
            let take = if miri { 3 } else { 24 };
            for x in ps.iter().take(take) {
                let piece = kind(p.sq[x.from as usize]);
                let takes = p.is_capture(*x);
                let shapes: Vec<(Option<u8>, Option<u8>)> = if piece == P {
                    if takes {
                        vec![(Some(x.from & 7), None)]
                    } else {
                        vec![(None, None), (Some(x.from & 7), Some(x.from >> 3))]
                    }
                } else {
                    vec![(None, None), (Some(x.from & 7), None), (Some(x.from & 7), Some(x.from >> 3))]
                };
                // every optional decoration too: a decorated text may take another path through the parser
                let is_ep = p.is_ep_capture(*x);
                for (sf, sr) in shapes {
                    for suf in [None, Some('+'), Some('#')].iter() {
                        for eps in [false, true].iter() {
                            if *eps && !is_ep {
                                continue;
                            }
                            let q = Parts { piece, src_file: sf, src_rank: sr, takes, dest: x.to, promo: x.promo, suffix: *suf, ep_suffix: *eps };
                            if is_ep {
                                rep.count("ev_illegal_ep_capture_spelled");
                            }
                            check(b, p, legal, &San::Normal(q), "pseudo-legal-but-illegal-move", rep);
                        }
                    }
                }
            }
        }
        // "captures" of the mover's own men: never legal, whatever the piece and the geometry
        {
            let own: Vec<Sq> = (0..64u8).filter(|s| p.sq[*s as usize] != 0 && color(p.sq[*s as usize]) == p.stm).collect();
            let take = if miri { 2 } else { 10 };
            for _ in 0..take {
                let from = *rng.pick(&own);
                let to = *rng.pick(&own);
                if from == to {
                    continue;
                }
                let piece = kind(p.sq[from as usize]);
                for takes in [true, false].iter() {
                    let (sf, sr) = if piece == P {
                        if *takes {
                            (Some(from & 7), None)
                        } else {
                            (None, None)
                        }
                    } else {
                        *rng.pick(&[(None, None), (Some(from & 7), None), (None, Some(from >> 3)), (Some(from & 7), Some(from >> 3))])
                    };
                    let q = Parts { piece, src_file: sf, src_rank: sr, takes: *takes, dest: to, promo: 0, suffix: None, ep_suffix: false };
                    check(b, p, legal, &San::Normal(q), "own-piece-as-destination", rep);
                }
            }
        }
        // castling spellings are always probed (legal or not)
        for long in [false, true].iter() {
            check(b, p, legal, &San::Castle { long: *long, suffix: None }, "castle-probe", rep);
        }
        // moves of a sibling position (the previous position of this history) spelled for that position
        if let Some((pp, pl)) = self.prev.take() {
            for m in pl.iter().take(if miri { 2 } else { 12 }) {
                for (san, _) in spellings(&pp, &pl, *m).into_iter().take(2) {
                    check(b, p, legal, &san, "sibling-position-move", rep);
                }
            }
        }
        self.prev = Some((p.clone(), legal.to_vec()));
        // grammar-random well-formed spellings
        let n = if miri { 3 } else { 40 };
        for _ in 0..n {
            let piece = *rng.pick(&[P, P, N, B, R, Q, K]);
            let dest = if rng.chance(2, 3) { rng.pick(legal).to } else { rng.below(64) as u8 };
            let q = Parts {
                piece,
                src_file: if rng.chance(1, 3) { Some(rng.below(8) as u8) } else { None },
                src_rank: if rng.chance(1, 4) { Some(rng.below(8) as u8) } else { None },
                takes: rng.chance(1, 3),
                dest,
                promo: if rng.chance(1, 6) { *rng.pick(&[Q, N, R, B]) } else { 0 },
                suffix: if rng.chance(1, 8) { Some(*rng.pick(&['+', '#'])) } else { None },
                ep_suffix: rng.chance(1, 20),
            };
            check(b, p, legal, &San::Normal(q), "grammar-random", rep);
        }
        // fuzz: only "no panic" and "Ok(x) => x legal"
        let n = if miri { 4 } else { 30 };
        for _ in 0..n {
            let text = fuzz_text(rng, p, legal);
            rep.count("ev_fuzz_strings");
            rep.count("op_from_san");
            rep.eval();
            match call(b, &text) {
                Err(_) => rep.violation("C12/panic", format!("fen={} text={:?}", p.fen(), text)),
                Ok(Ok(m)) => {
                    rep.count("ev_fuzz_ok");
                    if !legal.contains(&model_move(m)) {
                        rep.violation("C12/returned-illegal-move", format!("fen={} text={:?} -> {}", p.fen(), text, m));
                    }
                }
                Ok(Err(_)) => {}
            }
        }
        // systematic: a non-ASCII / control / out-of-alphabet character at every position of a canonical
        // spelling (a tokenizer indexing a table by the byte after the destination meets it here)
        if !legal.is_empty() {
            let nasty = ['\u{80}', 'é', '\u{7f}', '{', '\u{0}', '♞', '\u{10ffff}', '\u{b1}'];
            for _ in 0..(if miri { 1 } else { 3 }) {
                let m = *rng.pick(legal);
                let sp = spellings(p, legal, m);
                let base: Vec<char> = render(&sp[0].0).chars().collect();
                for i in 0..=base.len() {
                    for c in nasty.iter() {
                        if miri && !rng.chance(1, 2) {
                            continue;
                        }
                        let mut t = base.clone();
                        t.insert(i, *c);
                        let text: String = t.iter().collect();
                        rep.count("ev_fuzz_strings");
                        rep.count("ev_nasty_char_insertions");
                        rep.eval();
                        match call(b, &text) {
                            Err(_) => rep.violation("C12/panic", format!("fen={} text={:?}", p.fen(), text)),
                            Ok(Ok(mm)) => {
                                if !legal.contains(&model_move(mm)) {
                                    rep.violation("C12/returned-illegal-move", format!("fen={} text={:?} -> {}", p.fen(), text, mm));
                                }
                            }
                            Ok(Err(_)) => {}
                        }
                    }
                }
            }
        }
        if sample {
            rep.sample(format!("{} : {} legal moves; spellings include {}", p.fen(), legal.len(), shown.join(" ")));
        }
    }
}

fn fuzz_text(rng: &mut Rng, p: &RPos, legal: &[RMove]) -> String {
    let m = *rng.pick(legal);
    let sp = spellings(p, legal, m);
    let base = render(&rng.pick(&sp).0);
    let mut t: Vec<char> = base.chars().collect();
    match rng.below(12) {
        0 => {
            let i = rng.below(t.len());
            t[i] = *rng.pick(&['x', 'N', 'Q', 'a', 'h', '1', '8', '0', '9', 'O', '-', '+', '#', '=', ' ', 'é', 'K', 'P', 'e', '.', 'p']);
        }
        1 => {
            let i = rng.below(t.len() + 1);
            t.insert(i, *rng.pick(&['x', 'N', 'Q', 'a', 'h', '1', '8', 'O', '-', '+', '#', '=', ' ', 'é', '\u{301}', '♞']));
        }
        2 => {
            let i = rng.below(t.len());
            t.remove(i);
        }
        3 => {
            let cut = rng.below(t.len() + 1);
            t.truncate(cut);
        }
        4 => {
            for c in rng.pick(WEIRD).chars() {
                let i = rng.below(t.len() + 1);
                t.insert(i, c);
            }
        }
        5 => return random_text(rng, &["N", "B", "R", "Q", "K", "a", "b", "c", "d", "e", "f", "g", "h", "1", "2", "3", "4", "5", "6", "7", "8", "x", "+", "#", "=", "O", "-", " e.p.", "0"], 8),
        6 => return random_text(rng, WEIRD, 5),
        7 => {
            // uci-style and other notations
            return m.uci();
        }
        8 => {
            let s: String = t.iter().collect();
            return s.replace("O", "0");
        }
        9 => {
            let s: String = t.iter().collect();
            return format!("{}{}", s, rng.pick(&["!", "?", "+", "#", " e.p.", "=Q", "Q", " ", "garbage", "é"]));
        }
        10 => {
            let bytes: Vec<u8> = (0..rng.below(10)).map(|_| rng.next() as u8).collect();
            return String::from_utf8_lossy(&bytes).into_owned();
        }
        _ => {
            let s: String = t.iter().collect();
            return s.repeat(rng.range(2, 30));
        }
    }
    t.into_iter().collect()
}

impl NodeMon for C12 {
    fn through_rights_divergence(&self) -> bool {
        true
    }
    fn begin(&mut self, _s: &crate::synth::Start, _rep: &mut Report) {
        self.prev = None;
    }
    fn node(&mut self, n: &Node, rep: &mut Report, rng: &mut Rng) {
        if !same_core(&read_board(n.b), n.p) {
            return;
        }
        self.position(n.b, n.p, n.legal, rep, rng, n.ply == 1 && rep.samples.len() < 6);
    }
}

pub fn run_c12(ctx: &Ctx, rep: &mut Report) {
    let miri = ctx.variant == Variant::Miri;
    let corpus = corpus_positions();
    // directed regression inputs (DESIGN section 6: F4, F5) always run
    ctx.cases(rep, "directed", 1, |_g, rng, rep| {
        if ctx.shard != 0 {
            return;
        }
        let mut mon = C12 { variant: ctx.variant, prev: None };
        for fen in ["rnbqkbnr/ppp1pppp/8/8/3pP3/8/PPPP1PPP/RNBQKBNR b KQkq e3 0 1", "5k2/8/8/8/8/8/8/4K2R w K - 0 1", "4k3/8/8/8/8/8/8/R3K2r w Q - 0 1", "r3k3/8/8/8/8/8/8/2R1K3 b q - 0 1", "k7/8/8/3Pp3/8/8/8/K7 w - e6 0 1"].iter() {
            let p = RPos::from_fen(fen).unwrap();
            if let Ok(b) = board_from_model_fen(&p) {
                let legal = p.legal_moves();
                mon.position(&b, &p, &legal, rep, rng, true);
                rep.count("ev_directed_positions");
            }
        }
    });
    // "arbitrary positions": boards the library accepts although one side owns two dozen queens and rooks
    // (220-400 legal moves); every spelling and the fuzz families as on any other position
    let n = ctx.budget(12, 120, 1, 6);
    ctx.cases(rep, "many-moves", n, |_g, rng, rep| {
        if miri && ctx.shard >= 4 {
            return;
        }
        let p = if rng.chance(1, 6) { RPos::from_fen("R6R/3Q4/1Q4Q1/4Q3/2Q4Q/Q4Q2/pp1Q3Q/kBNN1KB1 w - - 0 1").unwrap() } else { crate::synth::many_moves_position(rng) };
        if let Ok(b) = board_from_model_fen(&p) {
            let legal = p.legal_moves();
            rep.max("max_legal_moves_of_a_position", legal.len() as u64);
            if legal.len() > 218 {
                rep.count("ev_positions_with_more_than_218_moves");
            }
            let mut mon = C12 { variant: ctx.variant, prev: None };
            mon.position(&b, &p, &legal, rep, rng, false);
        } else {
            rep.count("abst_many_moves_board_rejected_by_library");
        }
    });
    let n = ctx.budget(3500, 40_000, 2, 200);
    ctx.cases(rep, "play", n, |gid, rng, rep| {
        // SAN-convergence scenario is over-weighted
        let start = if rng.below(4) == 0 {
            crate::synth::scenario_retry(rng, 10).unwrap_or_else(|| mixed_start(rng, gid, &corpus))
        } else {
            mixed_start(rng, gid, &corpus)
        };
        let cfg = WalkCfg { max_plies: if miri { 3 } else { rng.range(6, 40) }, null_per_mille: 0, stop_on_divergence: true, follow_library: false, echo_per_mille: 50 };
        let mut mon = C12 { variant: ctx.variant, prev: None };
        playout(&start, &cfg, rng, &mut mon, rep);
    });
}

/// Strict parser of well-formed SAN text into its parts (None = not in the strict grammar).
pub fn parse_strict(text: &str) -> Option<San> {
    let b = text.as_bytes();
    if !text.is_ascii() {
        return None;
    }
    for (pre, long) in [("O-O-O", true), ("O-O", false)].iter() {
        if text.starts_with(pre) {
            let rest = &text[pre.len()..];
            return match rest {
                "" => Some(San::Castle { long: *long, suffix: None }),
                "+" => Some(San::Castle { long: *long, suffix: Some('+') }),
                "#" => Some(San::Castle { long: *long, suffix: Some('#') }),
                _ => {
                    if *long {
                        None
                    } else {
                        None
                    }
                }
            };
        }
    }
    let mut end = b.len();
    let mut ep_suffix = false;
    if text.ends_with(" e.p.") {
        ep_suffix = true;
        end -= 5;
    }
    let mut suffix = None;
    if end > 0 && (b[end - 1] == b'+' || b[end - 1] == b'#') {
        suffix = Some(b[end - 1] as char);
        end -= 1;
    }
    let mut promo = 0;
    if end > 0 && b"QRBN".contains(&b[end - 1]) && end >= 3 && (b'1'..=b'8').contains(&b[end - 2]) {
        promo = match b[end - 1] {
            b'Q' => Q,
            b'R' => R,
            b'B' => B,
            _ => N,
        };
        end -= 1;
    }
    if end < 2 || !(b'a'..=b'h').contains(&b[end - 2]) || !(b'1'..=b'8').contains(&b[end - 1]) {
        return None;
    }
    let dest = (b[end - 1] - b'1') * 8 + (b[end - 2] - b'a');
    end -= 2;
    let mut takes = false;
    if end > 0 && b[end - 1] == b'x' {
        takes = true;
        end -= 1;
    }
    let mut i = 0;
    let mut piece = P;
    if i < end && b"KQRBN".contains(&b[i]) {
        piece = match b[i] {
            b'K' => K,
            b'Q' => Q,
            b'R' => R,
            b'B' => B,
            _ => N,
        };
        i += 1;
    }
    let mut src_file = None;
    if i < end && (b'a'..=b'h').contains(&b[i]) {
        src_file = Some(b[i] - b'a');
        i += 1;
    }
    let mut src_rank = None;
    if i < end && (b'1'..=b'8').contains(&b[i]) {
        src_rank = Some(b[i] - b'1');
        i += 1;
    }
    if i != end {
        return None;
    }
    Some(San::Normal(Parts { piece, src_file, src_rank, takes, dest, promo, suffix, ep_suffix }))
}

/// One libFuzzer input: position selector + SAN text.
pub fn fuzz_one(sel: usize, text: &str, rep: &mut Report) {
    use std::sync::OnceLock;
    static POS: OnceLock<Vec<(RPos, Vec<RMove>, Board)>> = OnceLock::new();
    let pos = POS.get_or_init(|| {
        let mut v = vec![];
        let mut all = corpus_positions();
        for f in ["rnbqkbnr/ppp1pppp/8/8/3pP3/8/PPPP1PPP/RNBQKBNR b KQkq e3 0 1", "5k2/8/8/8/8/8/8/4K2R w K - 0 1", "4k3/8/8/8/8/8/8/R3K2r w Q - 0 1", "k7/8/8/3Pp3/8/8/8/K7 w - e6 0 1", "8/2N1N3/1N3N2/8/1N3N2/2N1N3/8/k6K w - - 0 1", "k7/8/8/8/8/8/Q6Q/K6Q w - - 0 1"].iter() {
            all.push(RPos::from_fen(f).unwrap());
        }
        for p in all {
            if let Ok(b) = board_from_model_fen(&p) {
                let l = p.legal_moves();
                v.push((p, l, b));
            }
        }
        v
    });
    let (p, legal, b) = &pos[sel % pos.len()];
    match parse_strict(text) {
        Some(san) if render(&san) == text => check(b, p, legal, &san, "fuzz-well-formed", rep),
        _ => match call(b, text) {
            Err(_) => rep.violation("C12/panic", format!("fen={} text={:?}", p.fen(), text)),
            Ok(Ok(m)) => {
                if !legal.contains(&model_move(m)) {
                    rep.violation("C12/returned-illegal-move", format!("fen={} text={:?} -> {}", p.fen(), text, m));
                }
            }
            Ok(Err(_)) => {}
        },
    }
}
