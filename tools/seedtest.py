#!/usr/bin/env python3
"""Developer tool: confirm a seeded change and run checks against it.

  tools/seedtest.py confirm <patch.diff> <demo.rs>      # in a scratch worktree: tests pass, demo fails with / passes without
  tools/seedtest.py run <patch.diff> <ID> [<ID>...]     # apply to /repo, run ./check <ID> (quick), undo; prints rc + signatures
  tools/seedtest.py run --only ubchk <patch.diff> <ID>...

Never commits anything to /repo; always restores the working tree.
"""
import json, os, shutil, subprocess, sys, tempfile

ROOT = os.path.dirname(os.path.dirname(os.path.abspath(__file__)))


def sh(cmd, cwd=None, timeout=3600):
    p = subprocess.run(cmd, cwd=cwd, shell=True, stdout=subprocess.PIPE, stderr=subprocess.STDOUT, text=True, timeout=timeout)
    return p.returncode, p.stdout


def confirm(patch, demo):
    wt = tempfile.mkdtemp(prefix="seedwt-", dir="/tmp")
    os.rmdir(wt)
    rc, out = sh("git -C /repo worktree add -q --detach %s HEAD" % wt)
    assert rc == 0, out
    res = {}
    try:
        os.makedirs(os.path.join(wt, "tests"), exist_ok=True)
        shutil.copy(demo, os.path.join(wt, "tests", "seed_demo.rs"))
        rc, out = sh("cargo test --offline --test seed_demo 2>&1 | tail -15", cwd=wt)
        res["demo_without_patch_passes"] = "test result: ok" in out
        rc, out = sh("git apply %s" % os.path.abspath(patch), cwd=wt)
        res["patch_applies"] = rc == 0
        if rc == 0:
            rc, out = sh("cargo test --offline --lib 2>&1 | grep -E '^test result' ", cwd=wt)
            res["existing_tests_pass_with_patch"] = "ok. 36 passed; 0 failed" in out
            res["existing_tests_line"] = out.strip()
            rc, out = sh("cargo test --offline --doc 2>&1 | grep -E '^test result' ", cwd=wt)
            res["doc_tests_pass_with_patch"] = "0 failed" in out and "ok" in out
            rc, out = sh("cargo test --offline --test seed_demo 2>&1 | tail -15", cwd=wt)
            res["demo_with_patch_fails"] = "test result: FAILED" in out or "panicked" in out or "error: test failed" in out
            if not res["demo_with_patch_fails"]:
                # a demonstration of undefined behaviour may only fail under Miri
                rc, out = sh("cargo +nightly miri test --offline --test seed_demo 2>&1 | tail -25", cwd=wt, timeout=3600)
                if "Undefined Behavior" in out or "test result: FAILED" in out or "error: test failed" in out:
                    sh("git apply -R %s" % os.path.abspath(patch), cwd=wt)
                    rc, out2 = sh("cargo +nightly miri test --offline --test seed_demo 2>&1 | tail -8", cwd=wt, timeout=3600)
                    res["demo_fails_only_under_miri"] = True
                    res["miri_demo_without_patch_passes"] = "test result: ok" in out2
                    res["demo_with_patch_fails"] = res["miri_demo_without_patch_passes"]
    finally:
        sh("git -C /repo worktree remove --force %s" % wt)
    print(json.dumps(res, indent=1))
    return 0 if all(v for k, v in res.items() if isinstance(v, bool)) else 1


def run(patch, ids, only=None):
    rc, out = sh("git -C /repo status --porcelain")
    assert out.strip() == "", "/repo not clean: " + out
    rc, out = sh("git -C /repo apply %s" % os.path.abspath(patch))
    assert rc == 0, out
    results = {}
    try:
        for pid in ids:
            cmd = "./check %s%s" % (pid, (" --only " + only) if only else "")
            rc, out = sh("VERIF_EVIDENCE_DIR=/tmp/seed-evidence " + cmd, cwd=ROOT, timeout=7200)
            sigs = [l.strip()[:300] for l in out.splitlines() if l.strip().startswith("violated:")]
            inconcl = [l.strip()[:300] for l in out.splitlines() if l.startswith("INCONCLUSIVE")]
            results[pid] = dict(rc=rc, signatures=sigs[:6], inconclusive=inconcl[:3])
            print(pid, "rc=%d" % rc)
            for s in sigs[:6]:
                print("   ", s)
            for s in inconcl[:3]:
                print("   ", s)
    finally:
        sh("git -C /repo checkout -- .")
        rc, out = sh("git -C /repo status --porcelain")
        assert out.strip() == "", "/repo not restored: " + out
    return results


if __name__ == "__main__":
    a = sys.argv[1:]
    if a[0] == "confirm":
        sys.exit(confirm(a[1], a[2]))
    elif a[0] == "run":
        only = None
        if a[1] == "--only":
            only = a[2]
            a = [a[0]] + a[3:]
        r = run(a[1], a[2:], only)
        sys.exit(0)
