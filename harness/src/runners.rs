//! Workload drivers for the position-walking properties.
use crate::corpus::corpus_positions;
use crate::mon_walk::*;
use crate::refchess::*;
use crate::report::*;
use crate::synth::{self, Density, Start};
use crate::walk::*;

fn walk_mix<M: NodeMon>(ctx: &Ctx, rep: &mut Report, mon: &mut M, quick: u64, thorough: u64, miri: u64, san: u64, plies: (usize, usize), tree_depth: usize) {
    let corpus = corpus_positions();
    let is_miri = ctx.variant == Variant::Miri;
    let null_pm = mon.wants_null_moves();
    let fl = mon.follows_library();
    let n = ctx.budget(quick, thorough, miri, san);
    ctx.cases(rep, "play", n, |gid, rng, rep| {
        let start = mixed_start(rng, gid, &corpus);
        let maxp = if is_miri { rng.range(2, 5) } else { rng.range(plies.0, plies.1) };
        let cfg = WalkCfg { max_plies: maxp, null_per_mille: null_pm, stop_on_divergence: true, follow_library: fl, echo_per_mille: 50 };
        let nodes = playout(&start, &cfg, rng, mon, rep);
        rep.add("ev_nodes", nodes as u64);
        // directed recipes: additionally every move of the motif position (after the prelude) is made once,
        // through a randomly chosen entry point, and its successor visited
        if !is_miri && is_scenario(start.tag) {
            let nodes = tree_opt(&start, 1, fl, rng, mon, rep);
            rep.add("ev_scenario_fanout_nodes", nodes as u64);
        }
    });
    // under Miri the random playouts are few and short: one directed step per *kind* of move (each
    // promotion piece with and without capture, both castlings of both colours, e.p., double step, a king
    // and a rook leaving home, a capture on a rook's home square) makes sure the interpreter executes
    // every branch of move application and of the incremental updates at least once per run
    if is_miri {
        let tour: [(&str, &str); 22] = [
            ("4k3/P7/8/8/8/8/8/4K3 w - - 0 1", "a7a8q"),
            ("4k3/P7/8/8/8/8/8/4K3 w - - 0 1", "a7a8n"),
            ("1r2k3/P7/8/8/8/8/8/4K3 w - - 0 1", "a7b8r"),
            ("4k3/8/8/8/8/8/p7/1R2K3 b - - 0 1", "a2b1b"),
            ("r3k2r/8/8/8/8/8/8/R3K2R w KQkq - 0 1", "e1g1"),
            ("r3k2r/8/8/8/8/8/8/R3K2R w KQkq - 0 1", "e1c1"),
            ("r3k2r/8/8/8/8/8/8/R3K2R b KQkq - 0 1", "e8g8"),
            ("r3k2r/8/8/8/8/8/8/R3K2R b KQkq - 0 1", "e8c8"),
            ("4k3/8/8/3pP3/8/8/8/4K3 w - d6 0 1", "e5d6"),
            ("4k3/8/8/8/3p4/8/4P3/4K3 w - - 0 1", "e2e4"),
            ("r3k2r/8/8/8/8/8/8/R3K2R w KQkq - 0 1", "a1a8"),
            ("r3k2r/8/8/8/8/8/8/R3K2R w KQkq - 0 1", "e1d2"),
            ("r3k2r/8/8/8/8/8/8/R3K2R b KQkq - 0 1", "h8h1"),
            ("4k3/8/8/8/8/2b5/3P4/4K3 w - - 0 1", "e1f1"),
            ("4k3/8/8/8/3pP3/8/8/4K3 b - e3 0 1", "d4e3"),
            ("4k2r/6P1/8/8/8/8/8/4K3 w k - 0 1", "g7h8q"),
            // the castle-rights tables consulted for the "wrong" colour's corner and king squares
            ("R7/4k3/8/8/8/8/8/4K2R w K - 0 1", "a8a2"),
            ("4k2r/8/8/8/8/8/4K3/r7 b k - 0 1", "a1a7"),
            ("6kB/7p/8/8/8/8/8/4K2R b K - 0 1", "g8h8"),
            ("4k2r/8/8/8/8/8/7P/6Kb w k - 0 1", "g1h1"),
            ("4Q3/8/8/8/8/7k/8/R3K3 w Q - 0 1", "e8e2"),
            ("r3k3/8/7K/8/8/8/8/4q3 b q - 0 1", "e1e7"),
        ];
        // ... and per *file*: a double push beside an enemy pawn on every file for either colour, with all four
        // castling rights (the longest FEN tail, every e.p. key, both edge files), and boards on which more sliders
        // are lined up with a king than it has rays
        let mut tour: Vec<(String, String)> = tour.iter().map(|(a, b)| (a.to_string(), b.to_string())).collect();
        for f in 0..8usize {
            let nb = if f == 0 { 1 } else if f == 7 { 6 } else if f % 2 == 0 { f + 1 } else { f - 1 };
            let row = |a: usize, ca: char, b: usize, cb: char| -> String {
                // a rank holding one or two pawns
                let mut cells = vec!['1'; 8];
                cells[a] = ca;
                if b < 8 {
                    cells[b] = cb;
                }
                let mut out = String::new();
                let mut run = 0;
                for c in cells {
                    if c == '1' {
                        run += 1;
                    } else {
                        if run > 0 {
                            out.push_str(&run.to_string());
                            run = 0;
                        }
                        out.push(c);
                    }
                }
                if run > 0 {
                    out.push_str(&run.to_string());
                }
                out
            };
            let file = (b'a' + f as u8) as char;
            tour.push((format!("r3k2r/8/8/8/{}/8/{}/R3K2R w KQkq - 0 1", row(nb, 'p', 8, ' '), row(f, 'P', 8, ' ')), format!("{}2{}4", file, file)));
            tour.push((format!("r3k2r/{}/8/{}/8/8/8/R3K2R b KQkq - 0 1", row(f, 'p', 8, ' '), row(nb, 'P', 8, ' ')), format!("{}7{}5", file, file)));
        }
        tour.push(("1QQ2rk1/P4ppp/8/8/2Q5/1Q4Q1/B5R1/6RK w - - 0 1".to_string(), "a7a8q".to_string()));
        tour.push(("6rk/b5r1/1q4q1/2q5/8/8/p4PPP/1qq2RK1 b - - 0 1".to_string(), "a2a1q".to_string()));
        ctx.cases(rep, "kinds-tour", 1, |gid, rng, rep| {
            for (i, (fen, mv)) in tour.iter().enumerate() {
                if i as u64 % ctx.nshards as u64 != gid % ctx.nshards as u64 {
                    continue;
                }
                let pos = RPos::from_fen(fen).unwrap();
                let b = mv.as_bytes();
                let promo = match b.get(4) {
                    Some(b'q') => Q,
                    Some(b'r') => R,
                    Some(b'b') => B,
                    Some(b'n') => N,
                    _ => 0,
                };
                let m = RMove::new((b[0] - b'a') + 8 * (b[1] - b'1'), (b[2] - b'a') + 8 * (b[3] - b'1'), promo);
                assert!(pos.valid() && pos.is_legal(m), "HARNESS: kinds-tour entry {} {} is not valid / legal", fen, mv);
                let st = Start { pos, prelude: vec![m], tag: "kinds_tour" };
                let cfg = WalkCfg { max_plies: 1, null_per_mille: 0, stop_on_divergence: true, follow_library: fl, echo_per_mille: 50 };
                let nodes = playout(&st, &cfg, rng, mon, rep);
                rep.add("ev_nodes", nodes as u64);
                rep.count("ev_kinds_tour_steps");
            }
        });
    }
    // stored inputs of the coverage-guided `play` campaign, replayed with this property's monitor
    if !is_miri {
        let inputs = crate::fuzzplay::stored_corpus();
        let total = inputs.len() as u64;
        let chunk = 64u64;
        let nchunks = (total + chunk - 1) / chunk;
        ctx.cases(rep, "fuzz-corpus", (nchunks + ctx.nshards as u64 - 1) / ctx.nshards as u64, |gid, _rng, rep| {
            if gid >= nchunks {
                return;
            }
            for i in (gid * chunk)..((gid + 1) * chunk).min(total) {
                crate::fuzzplay::run_with(mon, inputs[i as usize], rep, false);
                rep.count("ev_fuzz_corpus_inputs");
            }
        });
    }
    // W6: complete move trees from corpus roots
    if !is_miri && tree_depth > 0 {
        let roots = corpus.len() as u64;
        let per_shard = (roots + ctx.nshards as u64 - 1) / ctx.nshards as u64;
        ctx.cases(rep, "tree", per_shard, |gid, rng, rep| {
            if gid >= roots {
                return;
            }
            let root = &corpus[gid as usize];
            // keep trees bounded: deep only for small branching factors
            let bf = root.legal_moves().len();
            let d = if bf > 30 { tree_depth.saturating_sub(1).max(1) } else { tree_depth };
            let nodes = tree_opt(&Start::plain(root.clone(), "corpus"), d, fl, rng, mon, rep);
            rep.add("ev_tree_nodes", nodes as u64);
            rep.count("ev_trees");
        });
    }
    // W3: crowded-but-legal positions (move-list pressure) as one-node visits plus short playouts
    if !is_miri {
        let n = ctx.budget(quick / 4, thorough / 4, 0, san / 4);
        ctx.cases(rep, "crowded", n, |_gid, rng, rep| {
            let start = match rng.below(3) {
                0 => synth::scenario_retry(rng, 9).unwrap_or_else(|| Start::plain(synth::synth(rng, Density::Crowded), "synth_dense")),
                _ => Start::plain(synth::synth(rng, Density::Crowded), "synth_dense"),
            };
            let cfg = WalkCfg { max_plies: 6, null_per_mille: null_pm, stop_on_divergence: true, follow_library: fl, echo_per_mille: 50 };
            let nodes = playout(&start, &cfg, rng, mon, rep);
            rep.add("ev_nodes", nodes as u64);
        });
    }
}

/// Every entry of the slider lookup tables is reached *through the move generator*: for each square
/// and each occupancy of the squares that matter to a rook (bishop) standing there, a position with that
/// rook (bishop, queen) of the side to move, knights of both colours as blockers and the two kings
/// somewhere off the pattern is shown to the monitor.  102400 + 5248 positions per run.
pub fn slider_entries<M: NodeMon>(ctx: &Ctx, rep: &mut Report, mon: &mut M) {
    if ctx.variant == Variant::Miri {
        return;
    }
    ctx.cases(rep, "slider-entries", (64 + ctx.nshards as u64 - 1) / ctx.nshards as u64, |gid, rng, rep| {
        if gid >= 64 {
            return;
        }
        let s = gid as u8;
        let (f, r) = fr(s);
        for (dirs, kinds) in [(&ORTH, [R, Q]), (&DIAG, [B, Q])].iter() {
            let mut mask = 0u64;
            for d in dirs.iter() {
                let (mut cf, mut cr) = (f + d.0, r + d.1);
                while let (Some(t), Some(_)) = (mk(cf, cr), mk(cf + d.0, cr + d.1)) {
                    mask |= 1u64 << t;
                    cf += d.0;
                    cr += d.1;
                }
            }
            let mut sub = 0u64;
            loop {
                let mut placed = false;
                for _ in 0..20 {
                    let mut p = RPos::empty();
                    p.stm = WHITE;
                    p.sq[s as usize] = pc(*rng.pick(kinds), WHITE);
                    let mut i = 0;
                    for t in 0..64u8 {
                        if sub >> t & 1 == 1 {
                            p.sq[t as usize] = pc(N, if (i + rng.below(2)) % 2 == 0 { WHITE } else { BLACK });
                            i += 1;
                        }
                    }
                    let free: Vec<u8> = (0..64u8).filter(|t| p.sq[*t as usize] == 0 && mask >> t & 1 == 0).collect();
                    if free.len() < 2 {
                        break;
                    }
                    let wk = *rng.pick(&free);
                    let bk = *rng.pick(&free);
                    if wk == bk {
                        continue;
                    }
                    p.sq[wk as usize] = pc(K, WHITE);
                    p.sq[bk as usize] = pc(K, BLACK);
                    if !p.valid() {
                        continue;
                    }
                    let p = if rng.chance(1, 2) { p.mirror_v() } else { p };
                    let st = synth::Start::plain(p, "synth_slider_entries");
                    if let Some(b) = setup(&st, rep) {
                        let legal = st.pos.legal_moves();
                        let n = Node { b: &b, p: &st.pos, legal: &legal, ply: 0, prev: None, after_null: false, tag: st.tag, incremental: false, diverged: false };
                        mon.node(&n, rep, rng);
                        rep.count("ev_slider_entries_shown");
                        placed = true;
                    }
                    break;
                }
                if !placed {
                    rep.count("abst_slider_entry_without_valid_position");
                }
                sub = sub.wrapping_sub(mask) & mask;
                if sub == 0 {
                    break;
                }
            }
        }
    });
}

pub fn run_c01(ctx: &Ctx, rep: &mut Report) {
    let mut mon = C01 { variant: ctx.variant };
    let d = if ctx.tier == Tier::Thorough { 3 } else { 2 };
    slider_entries(ctx, rep, &mut mon);
    walk_mix(ctx, rep, &mut mon, 1500, 30_000, 2, 300, (20, 120), d);
}

pub fn run_c02(ctx: &Ctx, rep: &mut Report) {
    let mut mon = C02 { variant: ctx.variant, dirty: None };
    let d = if ctx.tier == Tier::Thorough { 3 } else { 2 };
    walk_mix(ctx, rep, &mut mon, 2000, 25_000, 2, 250, (20, 120), d);
}

pub fn run_c03(ctx: &Ctx, rep: &mut Report) {
    let mut mon = C03 { variant: ctx.variant };
    let d = if ctx.tier == Tier::Thorough { 4 } else { 3 };
    slider_entries(ctx, rep, &mut mon);
    walk_mix(ctx, rep, &mut mon, 6000, 80_000, 2, 400, (20, 160), d);
}

pub fn run_c05(ctx: &Ctx, rep: &mut Report) {
    let mut mon = C05 { prev: None };
    let d = if ctx.tier == Tier::Thorough { 4 } else { 3 };
    walk_mix(ctx, rep, &mut mon, 9000, 100_000, 2, 400, (60, 250), d);
}

pub fn run_c06(ctx: &Ctx, rep: &mut Report) {
    let mut mon = C06 {};
    let d = if ctx.tier == Tier::Thorough { 4 } else { 3 };
    // directed regression input (DESIGN section 6, F1) always runs
    ctx.cases(rep, "directed", 1, |_g, rng, rep| {
        if ctx.shard != 0 {
            return;
        }
        for (fen, m) in [("rnbqkbnr/ppp1pppp/8/8/3p4/8/PPPPPPPP/RNBQKBNR w KQkq - 0 1", RMove::new(12, 28, 0)), ("rnbqkbnr/pppppppp/8/3P4/8/8/PPP1PPPP/RNBQKBNR b KQkq - 0 1", RMove::new(52, 36, 0))].iter() {
            let st = Start { pos: RPos::from_fen(fen).unwrap(), prelude: vec![*m], tag: "directed_ep" };
            let cfg = WalkCfg { max_plies: 1, null_per_mille: 0, stop_on_divergence: true, follow_library: false, echo_per_mille: 50 };
            let mut mon = C06 {};
            playout(&st, &cfg, rng, &mut mon, rep);
        }
    });
    // the longest FENs there are (checkerboard placements, four rights, an e.p. square), rendered, re-parsed
    // and played on for a few plies; also under ASan and Miri (stack buffers of the renderer)
    let n = ctx.budget(300, 3000, 1, 100);
    ctx.cases(rep, "long-fen", n, |_g, rng, rep| {
        if let Some(p) = synth::long_fen_position(rng) {
            rep.max("max_fen_len", p.fen().len() as u64);
            if p.fen().len() >= 80 {
                rep.count("ev_fen_of_80_or_more_characters");
            }
            let st = Start::plain(p, "synth_long_fen");
            let cfg = WalkCfg { max_plies: if ctx.variant == Variant::Miri { 1 } else { 6 }, null_per_mille: 0, stop_on_divergence: true, follow_library: false, echo_per_mille: 50 };
            let mut mon = C06 {};
            playout(&st, &cfg, rng, &mut mon, rep);
        }
    });
    walk_mix(ctx, rep, &mut mon, 7000, 60_000, 2, 300, (20, 120), d);
}

pub fn run_hash(ctx: &Ctx, rep: &mut Report, p8: bool, p9: bool) {
    let cap = if ctx.tier == Tier::Thorough { 3_000_000 } else { 2_000_000 };
    let mut mon = HashMon::new(p8, p9, ctx.variant, cap);
    let d = if ctx.tier == Tier::Thorough { 4 } else { 3 };
    // transposition-rich: few-piece positions are over-weighted through the sparse synthesiser
    let corpus = corpus_positions();
    let is_miri = ctx.variant == Variant::Miri;
    let n = ctx.budget(1200, 20_000, 1, 100);
    ctx.cases(rep, "sparse", n, |_gid, rng, rep| {
        let start = if rng.chance(1, 2) { Start::plain(synth::synth(rng, Density::Sparse), "synth_sparse") } else { Start::plain(corpus[rng.below(corpus.len())].clone(), "corpus") };
        let cfg = WalkCfg { max_plies: if is_miri { 3 } else { rng.range(40, 160) }, null_per_mille: 30, stop_on_divergence: true, follow_library: false, echo_per_mille: 50 };
        let nodes = playout(&start, &cfg, rng, &mut mon, rep);
        rep.add("ev_nodes", nodes as u64);
    });
    walk_mix(ctx, rep, &mut mon, 2200, 30_000, 1, 200, (20, 120), d);
    mon.flush(&ctx.out_dir, ctx.shard, rep);
}

pub fn run_c17(ctx: &Ctx, rep: &mut Report) {
    let mut mon = C17 { inc_v: None, inc_h: None };
    let d = if ctx.tier == Tier::Thorough { 3 } else { 2 };
    walk_mix(ctx, rep, &mut mon, 5000, 50_000, 1, 200, (20, 100), d);
}

pub fn run_c18(ctx: &Ctx, rep: &mut Report) {
    let mut mon = C18 {};
    let d = if ctx.tier == Tier::Thorough { 4 } else { 3 };
    walk_mix(ctx, rep, &mut mon, 15000, 150_000, 2, 400, (20, 140), d);
}
