#!/usr/bin/env python3
"""Developer tool: confirm and run one round of seeded changes that live in /tmp/<wt>/<PID>/out/<v>/.

  tools/roundrun.py confirm <wtroot> <PID> <v>       -> <wtroot>/results/confirm_<PID>_<v>.json
  tools/roundrun.py cold <wtroot> <PID> <v> [IDs]    -> <wtroot>/results/cold_<PID>_<v>.json   (applies to /repo, runs ./check, restores)
  tools/roundrun.py store <wtroot> <suffix> [origin] -> seeded/<PID>-<suffix><v>/
"""
import io, json, os, sys, contextlib, shutil, time
sys.path.insert(0, os.path.dirname(os.path.abspath(__file__)))
import seedtest

ROOT = seedtest.ROOT


def main():
    a = sys.argv[1:]
    wt = a[1]
    os.makedirs(os.path.join(wt, "results"), exist_ok=True)
    if a[0] == "confirm":
        pid, v = a[2], a[3]
        d = os.path.join(wt, pid, "out", v)
        buf = io.StringIO()
        with contextlib.redirect_stdout(buf):
            rc = seedtest.confirm(os.path.join(d, "patch.diff"), os.path.join(d, "demo.rs"))
        res = json.loads(buf.getvalue())
        res["ok"] = rc == 0
        json.dump(res, open(os.path.join(wt, "results", "confirm_%s_%s.json" % (pid, v)), "w"), indent=1)
        print(pid, v, "confirmed" if rc == 0 else "NOT CONFIRMED", {k: x for k, x in res.items() if x is False})
    elif a[0] == "cold":
        pid, v = a[2], a[3]
        only = os.environ.get("ROUND_ONLY") or None
        ids = a[4:] or [pid]
        d = os.path.join(wt, pid, "out", v)
        t0 = time.time()
        r = seedtest.run(os.path.join(d, "patch.diff"), ids, only)
        head = seedtest.sh("git -C %s rev-parse --short HEAD" % ROOT)[1].strip()
        json.dump(dict(results=r, wall_s=round(time.time() - t0, 1), harness=head, only=only), open(os.path.join(wt, "results", "cold_%s_%s.json" % (pid, v)), "w"), indent=1)
    elif a[0] == "store":
        suffix = a[2]
        origin = a[3] if len(a) > 3 else "independent sub-agent given only the property text and a scratch worktree of /repo"
        n = 0
        for f in sorted(os.listdir(os.path.join(wt, "results"))):
            if not f.startswith("confirm_"):
                continue
            _, pid, v = f[:-5].split("_")
            c = json.load(open(os.path.join(wt, "results", f)))
            if not c.get("ok"):
                print("not confirmed, skipped:", pid, v)
                continue
            d = os.path.join(wt, pid, "out", v)
            dst = os.path.join(ROOT, "seeded", "%s-%s%s" % (pid, suffix, v))
            os.makedirs(dst, exist_ok=True)
            shutil.copy(os.path.join(d, "patch.diff"), dst)
            shutil.copy(os.path.join(d, "demo.rs"), dst)
            notes = open(os.path.join(d, "notes.md")).read() if os.path.exists(os.path.join(d, "notes.md")) else ""
            meta = dict(id="%s-%s%s" % (pid, suffix, v), property=pid, origin=origin, needs_to_manifest=notes.strip()[:3000],
                        confirmed=dict(c, how="tools/seedtest.py confirm: fresh scratch worktree; demo passes without the patch; with the patch the 36 unit tests and the doc tests pass and the demo fails"))
            cf = os.path.join(wt, "results", "cold_%s_%s.json" % (pid, v))
            if os.path.exists(cf):
                cr = json.load(open(cf))
                r = cr["results"].get(pid, {})
                meta["check_result"] = dict(command="tools/seedtest.py run patch.diff %s (patch applied to /repo, ./check %s quick, all variants; harness %s frozen before the round; /repo restored afterwards)" % (pid, pid, cr.get("harness")),
                                            exit_code=r.get("rc"), caught=(r.get("rc") == 1), signatures=r.get("signatures", []), inconclusive=r.get("inconclusive", []), wall_s=cr.get("wall_s"))
            if os.path.exists(os.path.join(dst, "meta.json")):
                old = json.load(open(os.path.join(dst, "meta.json")))
                for k in ("on_repo",):
                    if k in old:
                        meta[k] = old[k]
            json.dump(meta, open(os.path.join(dst, "meta.json"), "w"), indent=1)
            n += 1
        print("stored", n)


main()
