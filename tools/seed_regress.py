#!/usr/bin/env python3
"""Developer tool: apply every stored seeded change to /repo itself (as the brief prescribes), run the
property's full quick check, undo, and record the outcome in seeded/<id>/meta.json["on_repo"]."""
import json, os, subprocess, sys, glob, time
ROOT = os.path.dirname(os.path.dirname(os.path.abspath(__file__)))


def sh(cmd, cwd=None, timeout=7200):
    p = subprocess.run(cmd, cwd=cwd, shell=True, stdout=subprocess.PIPE, stderr=subprocess.STDOUT, text=True, timeout=timeout)
    return p.returncode, p.stdout


sel = sys.argv[1:]
head = sh("git -C /repo rev-parse --short HEAD")[1].strip()
assert sh("git -C /repo status --porcelain")[1].strip() == "", "/repo not clean"
for d in sorted(glob.glob(os.path.join(ROOT, "seeded", "C*"))):
    sid = os.path.basename(d)
    if sel and not any(sid.startswith(s) for s in sel):
        continue
    mp = os.path.join(d, "meta.json")
    m = json.load(open(mp))
    patch = os.path.join(d, "patch.diff")
    rc, out = sh("git -C /repo apply --check %s" % patch)
    if rc != 0:
        m["on_repo"] = dict(head=head, applies=False, note="patch does not apply to the current HEAD (it was written against an earlier tree, before a later fix: commit touched the same lines)")
        json.dump(m, open(mp, "w"), indent=1)
        print(sid, "does not apply")
        continue
    sh("git -C /repo apply %s" % patch)
    t0 = time.time()
    try:
        only = os.environ.get("ROUND_ONLY")
        rc, out = sh("VERIF_EVIDENCE_DIR=/tmp/seed-evidence ./check %s%s" % (m["property"], (" --only " + only) if only else ""), cwd=ROOT)
    finally:
        sh("git -C /repo checkout -- .")
    assert sh("git -C /repo status --porcelain")[1].strip() == "", "/repo not restored"
    sigs = [l.strip().split()[1] for l in out.splitlines() if l.strip().startswith("violated:")]
    m["on_repo"] = dict(head=head, applies=True, command="git -C /repo apply patch.diff && ./check %s%s ; git -C /repo checkout -- ." % (m["property"], (" --only " + os.environ["ROUND_ONLY"]) if os.environ.get("ROUND_ONLY") else ""), exit_code=rc, caught=(rc == 1), signatures=sigs[:8], wall_s=round(time.time() - t0, 1))
    json.dump(m, open(mp, "w"), indent=1)
    print(sid, "rc=%d" % rc, sigs[:3])
    sys.stdout.flush()
