//! C04 (status on exhaustive small endgames and terminal positions) and C07 (validation never
//! panics, accepts only playable positions, accepted positions are safe to use).
use crate::conv::*;
use crate::corpus::corpus_positions;
use crate::mon_tables::{random_text, WEIRD};
use crate::mon_walk::{arbitrary_builder, pack};
use crate::refchess::*;
use crate::report::*;
use crate::rng::Rng;
use crate::synth::{self, Density, Start};
use crate::walk::*;
use chess::{Board, BoardBuilder, BoardStatus, Color, MoveGen, Piece, Square};
use std::convert::TryFrom;
use std::panic::{catch_unwind, AssertUnwindSafe};
use std::str::FromStr;

// ================================================================================================ C04

fn status_code(s: BoardStatus) -> RStatus {
    match s {
        BoardStatus::Ongoing => RStatus::Ongoing,
        BoardStatus::Stalemate => RStatus::Stalemate,
        BoardStatus::Checkmate => RStatus::Checkmate,
    }
}

pub fn check_status(b: &Board, p: &RPos, src: &str, rep: &mut Report) {
    rep.eval();
    rep.count("op_status");
    let want = p.status();
    let got = status_code(b.status());
    match want {
        RStatus::Checkmate => rep.count("ev_checkmates"),
        RStatus::Stalemate => rep.count("ev_stalemates"),
        RStatus::Ongoing => rep.count("ev_ongoing"),
    }
    if got != want {
        rep.violation(&format!("C04/status/{:?}-reported-as-{:?}/{}", want, got, src), format!("fen={} status()={:?} rules say {:?}", p.fen(), got, want));
    }
}

struct C04Mon {
    miri: bool,
}
impl NodeMon for C04Mon {
    fn through_rights_divergence(&self) -> bool {
        true
    }
    fn node(&mut self, n: &Node, rep: &mut Report, rng: &mut Rng) {
        if n.diverged {
            return;
        }
        if !n.legal.is_empty() {
            rep.seen(hash_bytes(&pack(n.p, n.p.ep)));
        } else {
            rep.seen(hash_bytes(&pack(n.p, n.p.ep)) ^ 1);
            rep.count("ev_terminal_in_play");
            if rep.samples.len() < 6 {
                rep.sample(format!("terminal position reached in play: {} -> {:?}", n.p.fen(), n.p.status()));
            }
        }
        check_status(n.b, n.p, "play", rep);
        // one-ply look-ahead: every successor in which the game is over (model: no legal move), and on a
        // sample of nodes every successor with at most three legal moves, is produced by the library
        // and its status judged.  Status is decided on such positions, and random play rarely picks
        // the one move (an en-passant capture, a castling, an under-promotion) that leads there.
        let full = !self.miri && (n.ply <= 2 || rng.chance(1, 6));
        for m in n.legal.iter().take(if self.miri { 4 } else { 1000 }) {
            let np = n.p.make(*m);
            let terminal = !np.has_legal_move();
            if !(terminal || (full && np.legal_moves().len() <= 3)) {
                continue;
            }
            let lm = crate::conv::lib_move(*m);
            if !n.b.legal(lm) {
                rep.count("abst_lookahead_move_not_legal_in_library");
                continue;
            }
            let nb = n.b.make_move_new(lm);
            if !crate::conv::same_core(&crate::conv::read_board(&nb), &np) {
                rep.count("abst_lookahead_successor_differs");
                continue;
            }
            rep.count(if terminal { "ev_lookahead_terminal" } else { "ev_lookahead_few_moves" });
            if terminal && n.p.is_ep_capture(*m) {
                rep.count("ev_lookahead_terminal_by_ep");
            } else if terminal && n.p.is_castle(*m) {
                rep.count("ev_lookahead_terminal_by_castling");
            } else if terminal && m.promo != 0 {
                rep.count("ev_lookahead_terminal_by_promotion");
            }
            if !terminal && np.legal_moves().iter().all(|x| np.is_ep_capture(*x)) {
                rep.count("ev_lookahead_only_ep_moves");
            }
            rep.seen(hash_bytes(&pack(&np, np.ep)) ^ if terminal { 1 } else { 0 });
            check_status(&nb, &np, if terminal { "lookahead-terminal" } else { "lookahead-few-moves" }, rep);
        }
    }
}

/// enumerate every placement of the given men (kings first), both sides to move
fn enumerate_class(men: &[u8], first_sq_only: Option<u8>, rep: &mut Report, class: &str) {
    fn rec(men: &[u8], i: usize, p: &mut RPos, first_sq_only: Option<u8>, rep: &mut Report, class: &str) {
        if i == men.len() {
            for stm in 0..2u8 {
                p.stm = stm;
                rep.count("ev_placements");
                if !p.valid() {
                    continue;
                }
                rep.count("ev_valid_positions");
                let bb = builder_from_model(p);
                match Board::try_from(&bb) {
                    Ok(b) => {
                        rep.seen(hash_bytes(&pack(p, None)));
                        check_status(&b, p, class, rep);
                    }
                    Err(_) => {
                        rep.count("setup_rejected");
                        if rep.notes.len() < 5 {
                            rep.notes.push(format!("library rejected model-valid {}", p.fen()));
                        }
                    }
                }
            }
            return;
        }
        let k = men[i];
        let lo_hi: Vec<u8> = match (i, first_sq_only) {
            (0, Some(s)) => vec![s],
            _ => (0..64).collect(),
        };
        for s in lo_hi {
            if p.sq[s as usize] != 0 {
                continue;
            }
            if kind(k) == P && (s >> 3 == 0 || s >> 3 == 7) {
                continue;
            }
            // identical men: impose an order to avoid counting the same placement twice
            if i > 0 && men[i - 1] == k {
                let prev = (0..64u8).rev().find(|&t| p.sq[t as usize] == k);
                if let Some(pv) = prev {
                    if s < pv {
                        continue;
                    }
                }
            }
            p.sq[s as usize] = k;
            rec(men, i + 1, p, first_sq_only, rep, class);
            p.sq[s as usize] = 0;
        }
    }
    let mut p = RPos::empty();
    rec(men, 0, &mut p, first_sq_only, rep, class);
}

pub fn four_man_classes() -> Vec<(&'static str, Vec<u8>)> {
    let w = |k| pc(k, WHITE);
    let b = |k| pc(k, BLACK);
    vec![
        ("KQvKR", vec![w(K), b(K), w(Q), b(R)]),
        ("KRvKB", vec![w(K), b(K), w(R), b(B)]),
        ("KRvKN", vec![w(K), b(K), w(R), b(N)]),
        ("KPvKP", vec![w(K), b(K), w(P), b(P)]),
        ("KBNvK", vec![w(K), b(K), w(B), w(N)]),
        ("KQvKQ", vec![w(K), b(K), w(Q), b(Q)]),
        ("KNNvK", vec![w(K), b(K), w(N), w(N)]),
        ("KQvKP", vec![w(K), b(K), w(Q), b(P)]),
        ("KRvKP", vec![w(K), b(K), w(R), b(P)]),
        ("KBBvK", vec![w(K), b(K), w(B), w(B)]),
        ("KRvKR", vec![w(K), b(K), w(R), b(R)]),
        ("KPPvK", vec![w(K), b(K), w(P), w(P)]),
    ]
}

pub fn run_c04(ctx: &Ctx, rep: &mut Report) {
    let miri = ctx.variant == Variant::Miri;
    // W5: all K+X v K, X of either colour; sharded by the white king's square
    ctx.cases(rep, "three-man", (64 + ctx.nshards as u64 - 1) / ctx.nshards as u64, |gid, _rng, rep| {
        if gid >= 64 || miri {
            return;
        }
        for x in [Q, R, B, N, P].iter() {
            for c in 0..2u8 {
                let men = [pc(K, WHITE), pc(K, BLACK), pc(*x, c)];
                let class = format!("K{}vK-{}", piece_char(pc(*x, WHITE)), if c == WHITE { "w" } else { "b" });
                enumerate_class(&men, Some(gid as u8), rep, &class);
            }
        }
        if gid == 0 {
            rep.sample("every placement of K+X v K (X in QRBNP, either colour), both sides to move, white king on a1: status() vs rules".to_string());
        }
    });
    if ctx.tier == Tier::Thorough && ctx.variant == Variant::Native {
        let classes = four_man_classes();
        ctx.cases(rep, "four-man", (classes.len() as u64 * 64 + ctx.nshards as u64 - 1) / ctx.nshards as u64, |gid, _rng, rep| {
            let ci = (gid / 64) as usize;
            if ci >= classes.len() {
                return;
            }
            let (name, men) = &classes[ci];
            enumerate_class(men, Some((gid % 64) as u8), rep, name);
            rep.count(&format!("ev_class_slices_{}", name));
        });
    }
    // terminal positions met in play: sparse positions and mating nets reach mate/stalemate quickly
    let corpus = corpus_positions();
    let n = ctx.budget(8000, 80_000, 2, 300);
    ctx.cases(rep, "play", n, |gid, rng, rep| {
        let start = match rng.below(7) {
            6 => synth::scenario_retry(rng, 20).unwrap_or_else(|| Start::plain(RPos::startpos(), "corpus")),
            4 => synth::scenario_retry(rng, 17).unwrap_or_else(|| Start::plain(RPos::startpos(), "corpus")),
            5 => synth::scenario_retry(rng, 18).unwrap_or_else(|| Start::plain(RPos::startpos(), "corpus")),
            0 => synth::scenario_retry(rng, 11).unwrap_or_else(|| Start::plain(RPos::startpos(), "corpus")),
            1 => Start::plain(synth::synth(rng, Density::Sparse), "synth_sparse"),
            2 => mixed_start(rng, gid, &corpus),
            _ => Start::plain(synth::synth(rng, Density::Medium), "synth_dense"),
        };
        let cfg = WalkCfg { max_plies: if miri { 6 } else { 80 }, null_per_mille: 0, stop_on_divergence: true, follow_library: false, echo_per_mille: 50 };
        let mut mon = C04Mon { miri };
        playout(&start, &cfg, rng, &mut mon, rep);
    });
}

// ================================================================================================ C07

/// necessary conditions on a board the library accepted, read back through its public API
fn check_accepted(b: &Board, origin: &str, rep: &mut Report) {
    let p = read_board(b);
    let desc = format!("{} (from {})", p.fen_with_ep(None), origin);
    for c in 0..2u8 {
        if p.count(pc(K, c)) != 1 {
            rep.violation("C07/accepted/king-count", desc.clone());
            return;
        }
    }
    if p.in_check(p.stm ^ 1) {
        rep.violation("C07/accepted/side-not-to-move-in-check", desc.clone());
    }
    let backed = |bit: u8, ksq: usize, rsq: usize, c: u8| -> bool { p.castle & bit == 0 || (p.sq[ksq] == pc(K, c) && p.sq[rsq] == pc(R, c)) };
    if !(backed(WK, 4, 7, WHITE) && backed(WQ, 4, 0, WHITE) && backed(BK, 60, 63, BLACK) && backed(BQ, 60, 56, BLACK)) {
        rep.violation("C07/accepted/castling-right-not-backed", desc.clone());
    }
    if let Some(es) = b.en_passant() {
        rep.count("ev_accepted_with_ep");
        let s = es.to_int();
        let mover = p.stm ^ 1;
        let want_rank = if mover == WHITE { 3 } else { 4 };
        if p.sq[s as usize] != pc(P, mover) || (s >> 3) != want_rank {
            rep.violation("C07/accepted/ep-state-not-on-enemy-pawn-on-double-push-rank", format!("{} en_passant()={}", desc, es));
        }
    }
}

/// use an accepted board for one step: generation, status, rendering, application of every generated move
fn exercise(b: &Board, rep: &mut Report) {
    rep.count("op_exercise_accepted");
    let p = read_board(b);
    let men_stm = p.men(p.stm);
    rep.max("max_men_side_to_move", men_stm as u64);
    if men_stm > 16 {
        rep.count("ev_accepted_crowded");
    }
    let mut gen = MoveGen::new_legal(b);
    let slots = gen.verif_slots();
    let cap = gen.verif_capacity();
    rep.max("max_slots_used", slots as u64);
    rep.max("slot_capacity", cap as u64);
    if slots > cap {
        rep.violation("C07/safety/move-list-overflow", format!("{} uses {} move-list slots, capacity {}", p.fen_with_ep(None), slots, cap));
        return;
    }
    let _ = gen.len();
    let mut moves = vec![];
    while let Some(m) = gen.next() {
        moves.push(m);
        if moves.len() > 4096 {
            rep.violation("C07/safety/generator-does-not-terminate", p.fen_with_ep(None));
            break;
        }
    }
    rep.max("max_moves_generated", moves.len() as u64);
    // representation-independent pressure measure for the coverage gate: distinct source squares among the generated moves
    let mut srcs = 0u64;
    for m in moves.iter() {
        srcs |= 1u64 << m.get_source().to_index();
    }
    rep.max("max_movable_men", srcs.count_ones() as u64);
    let _ = b.status();
    let text = format!("{}", b);
    rep.add("ev_rendered_bytes", text.len() as u64);
    let mut out = Board::default();
    for m in moves.iter() {
        let s = b.make_move_new(*m);
        b.make_move(*m, &mut out);
        rep.count("op_apply_generated_move");
        // successors are not fed back (accepted-but-unreachable positions need only survive one step),
        // but rendering them must not crash either
        let _ = s.combined().0 ^ out.combined().0;
    }
    rep.seen(hash_bytes(&pack(&p, lib_ep_file(b))));
}

pub fn judge_text(text: &str, must_accept: bool, rep: &mut Report) {
    rep.eval();
    rep.count("op_board_from_str");
    let r = catch_unwind(AssertUnwindSafe(|| Board::from_str(text)));
    let r2 = catch_unwind(AssertUnwindSafe(|| BoardBuilder::from_str(text).map(|bb| format!("{}", bb))));
    if r2.is_err() {
        rep.violation("C07/panic/BoardBuilder::from_str", format!("{:?}", text));
    }
    match r {
        Err(_) => rep.violation("C07/panic/Board::from_str", format!("{:?}", text)),
        Ok(Ok(b)) => {
            rep.count("ev_text_accepted");
            check_accepted(&b, &format!("text {:?}", text), rep);
            let r = catch_unwind(AssertUnwindSafe(|| exercise(&b, rep)));
            if r.is_err() {
                rep.violation("C07/safety/panic-using-accepted-board", format!("accepted text {:?}", text));
            }
        }
        Ok(Err(_)) => {
            rep.count("ev_text_rejected");
            if must_accept {
                rep.violation("C07/rejected-valid-position/text", format!("{:?}", text));
            }
        }
    }
}

fn judge_builder(bb: &BoardBuilder, origin: &str, must_accept: bool, rep: &mut Report) {
    rep.eval();
    rep.count("op_board_try_from");
    let r = catch_unwind(AssertUnwindSafe(|| Board::try_from(bb)));
    match r {
        Err(_) => rep.violation("C07/panic/Board::try_from", format!("builder {}", origin)),
        Ok(Ok(b)) => {
            rep.count("ev_builder_accepted");
            check_accepted(&b, origin, rep);
            let r = catch_unwind(AssertUnwindSafe(|| exercise(&b, rep)));
            if r.is_err() {
                rep.violation("C07/safety/panic-using-accepted-board", format!("accepted builder state {} = {}", origin, bb));
            }
        }
        Ok(Err(_)) => {
            rep.count("ev_builder_rejected");
            if must_accept {
                rep.violation("C07/rejected-valid-position/builder", format!("{}", bb));
            }
        }
    }
}

/// `judge_builder` for the state as given and, half of the time, for the same content reached along another
/// construction path and converted through the by-value / `&mut` impls: verdict and board must not depend on the path
fn judge_builder_paths(bb: &BoardBuilder, origin: &str, must_accept: bool, rng: &mut Rng, rep: &mut Report) {
    judge_builder(bb, origin, must_accept, rep);
    if rng.chance(1, 2) {
        let twin = repath_builder(bb, rng);
        rep.count("ev_builder_repathed");
        judge_builder(&twin, &format!("{}-repathed", origin), must_accept, rep);
        let r0 = catch_unwind(AssertUnwindSafe(|| Board::try_from(bb)));
        let r1 = catch_unwind(AssertUnwindSafe(|| {
            if rng.chance(1, 2) {
                Board::try_from(twin)
            } else {
                let mut t = twin;
                Board::try_from(&mut t)
            }
        }));
        if let (Ok(a), Ok(b)) = (r0, r1) {
            let same = match (&a, &b) {
                (Ok(x), Ok(y)) => x == y && x.get_hash() == y.get_hash() && x.en_passant() == y.en_passant() && x.castle_rights(Color::White) == y.castle_rights(Color::White) && x.castle_rights(Color::Black) == y.castle_rights(Color::Black),
                (Err(_), Err(_)) => true,
                _ => false,
            };
            if !same {
                rep.violation("C07/builder/verdict-depends-on-construction-path", format!("builder state {} ({}): {:?} as given, {:?} for the same content built another way", bb, origin, a.as_ref().map(|x| format!("{}", x)).map_err(|_| "rejected"), b.as_ref().map(|x| format!("{}", x)).map_err(|_| "rejected")));
            }
        }
    }
}

const FEN_ALPHA: &[&str] = &["p", "n", "b", "r", "q", "k", "P", "N", "B", "R", "Q", "K", "1", "2", "3", "4", "5", "6", "7", "8", "/", "/", " ", "w", "b", "-", "K", "Q", "k", "q", "a", "e", "h", "3", "6", "0", "9"];

fn mutate(rng: &mut Rng, s: &str) -> String {
    let mut t: Vec<char> = s.chars().collect();
    let n = 1 + rng.below(3);
    for _ in 0..n {
        if t.is_empty() {
            break;
        }
        match rng.below(14) {
            0 => {
                let i = rng.below(t.len());
                t[i] = rng.pick(FEN_ALPHA).chars().next().unwrap();
            }
            1 => {
                let i = rng.below(t.len() + 1);
                t.insert(i, rng.pick(FEN_ALPHA).chars().next().unwrap());
            }
            2 => {
                let i = rng.below(t.len());
                t.remove(i);
            }
            3 => {
                let i = rng.below(t.len());
                let c = t[i];
                t.insert(i, c);
            }
            4 => {
                // digit substitution
                for c in t.iter_mut() {
                    if c.is_ascii_digit() && rng.chance(1, 4) {
                        *c = *rng.pick(&['0', '1', '7', '8', '9']);
                    }
                }
            }
            5 => {
                // more / fewer kings
                let i = rng.below(t.len());
                if t[i].is_ascii_alphabetic() {
                    t[i] = *rng.pick(&['K', 'k']);
                }
            }
            6 => {
                let cut = rng.below(t.len());
                t.truncate(cut);
            }
            7 => {
                let i = rng.below(t.len() + 1);
                for c in rng.pick(WEIRD).chars() {
                    t.insert(i.min(t.len()), c);
                }
            }
            8 => {
                // swap two space-separated tokens
                let st: String = t.iter().collect();
                let mut toks: Vec<&str> = st.split(' ').collect();
                if toks.len() >= 2 {
                    let i = rng.below(toks.len());
                    let j = rng.below(toks.len());
                    toks.swap(i, j);
                }
                t = toks.join(" ").chars().collect();
            }
            9 => {
                // castling field garbage
                let st: String = t.iter().collect();
                let mut toks: Vec<String> = st.split(' ').map(|x| x.to_string()).collect();
                if toks.len() >= 3 {
                    toks[2] = rng.pick(&["KQkqKQ", "HAha", "kqKQ", "KK", "", "Kx", "QQQQ", "-K", "KQkq-", "AHah", "é"]).to_string();
                }
                t = toks.join(" ").chars().collect();
            }
            10 => {
                // en-passant field garbage / random square
                let st: String = t.iter().collect();
                let mut toks: Vec<String> = st.split(' ').map(|x| x.to_string()).collect();
                if toks.len() >= 4 {
                    toks[3] = match rng.below(4) {
                        0 => sq_name(rng.below(64) as u8),
                        1 => rng.pick(&["e9", "i3", "e3e3", "--", "é3", "e", "3e", "a0", "h9x", "E3", "eé", "a\u{301}", "h♞", "e\u{10ffff}", "b\u{0}", "ａ3", "e３"]).to_string(),
                        2 => format!("{}{}", (b'a' + rng.below(8) as u8) as char, if rng.chance(1, 2) { '3' } else { '6' }),
                        _ => "-".to_string(),
                    };
                }
                t = toks.join(" ").chars().collect();
            }
            11 => {
                // extra ranks: the rank counter wraps
                let i = rng.below(t.len() + 1);
                for _ in 0..rng.range(1, 12) {
                    t.insert(i.min(t.len()), '/');
                }
            }
            12 => {
                // flip side to move token
                let st: String = t.iter().collect();
                let mut toks: Vec<String> = st.split(' ').map(|x| x.to_string()).collect();
                if toks.len() >= 2 {
                    toks[1] = rng.pick(&["w", "b", "W", "B", "x", "", "wb"]).to_string();
                }
                t = toks.join(" ").chars().collect();
            }
            _ => {
                // over-long
                let st: String = t.iter().collect();
                let rep_n = rng.range(2, 40);
                t = st.repeat(rep_n).chars().collect();
            }
        }
    }
    t.into_iter().collect()
}

/// a crowded but otherwise well-formed board: far more men for the side to move than a chess set has
pub fn crowded_builder(rng: &mut Rng) -> BoardBuilder {
    loop {
        let mut p = RPos::empty();
        let stm = rng.below(2) as u8;
        p.stm = stm;
        let ek = rng.below(64) as u8;
        p.sq[ek as usize] = pc(K, stm ^ 1);
        let n = rng.range(17, 50);
        let mut placed_king = false;
        for i in 0..n {
            let s = rng.below(64) as u8;
            if p.sq[s as usize] != 0 {
                continue;
            }
            let k = if !placed_king && i > 2 {
                placed_king = true;
                K
            } else {
                *rng.pick(&[P, P, P, P, N, N, B, R, Q, P])
            };
            p.sq[s as usize] = pc(k, stm);
        }
        if !placed_king {
            continue;
        }
        // a few enemy men as well (possibly an e.p. candidate)
        for _ in 0..rng.below(8) {
            let s = rng.below(64) as u8;
            if p.sq[s as usize] == 0 {
                p.sq[s as usize] = pc(*rng.pick(&[P, P, N, B, R, Q]), stm ^ 1);
            }
        }
        // remove whatever attacks the enemy king so that the board is otherwise acceptable
        for _ in 0..40 {
            let att = p.attackers(ek, stm);
            if att == 0 {
                break;
            }
            let s = att.trailing_zeros() as usize;
            if kind(p.sq[s]) == K {
                break;
            }
            p.sq[s] = 0;
        }
        if p.attackers(ek, stm) != 0 || p.king_sq(stm).is_none() {
            continue;
        }
        let mut bb = builder_from_model(&p);
        if rng.chance(1, 3) {
            bb.en_passant(Some(chess::File::from_index(rng.below(8))));
        }
        return bb;
    }
}

/// kings and rooks on home squares in every colour assignment, shielded from each other, random rights:
/// exercises the "right backed by king and rook of that colour at home" test against look-alikes
/// One side owns almost the whole board and nearly every one of its men can move: all squares filled
/// with officers of the side to move except a random 8-30% of holes.  Such boards are accepted by the
/// library's validation (it does not count men), so its move list must cope with 40-55 movable men.
pub fn lattice_builder(rng: &mut Rng) -> BoardBuilder {
    loop {
        let mut p = RPos::empty();
        let stm = rng.below(2) as u8;
        p.stm = stm;
        let any = rng.below(64) as u8;
        let ek = *rng.pick(&[0u8, 7, 56, 63, 3, 60, 24, 39, any]);
        p.sq[ek as usize] = pc(K, stm ^ 1);
        let mut k = rng.below(64) as u8;
        while k == ek || ((k & 7) as i8 - (ek & 7) as i8).abs() <= 1 && ((k >> 3) as i8 - (ek >> 3) as i8).abs() <= 1 {
            k = rng.below(64) as u8;
        }
        p.sq[k as usize] = pc(K, stm);
        let holes = rng.range(8, 30) as u64;
        let pawn_share = *rng.pick(&[0u64, 0, 10, 30]);
        for s in 0..64u8 {
            if p.sq[s as usize] != 0 || rng.chance(holes, 100) {
                continue;
            }
            let kd = if rng.chance(pawn_share, 100) && s >> 3 != 0 && s >> 3 != 7 { P } else { *rng.pick(&[Q, Q, N, R, B, Q, N]) };
            p.sq[s as usize] = pc(kd, stm);
        }
        for _ in 0..64 {
            let att = p.attackers(ek, stm);
            if att == 0 {
                break;
            }
            let s = att.trailing_zeros() as usize;
            if kind(p.sq[s]) == K {
                break;
            }
            // replace by something harmless if possible, else leave a hole
            p.sq[s] = 0;
        }
        if p.attackers(ek, stm) != 0 {
            continue;
        }
        return builder_from_model(&p);
    }
}

pub fn home_square_confusion(rng: &mut Rng) -> BoardBuilder {
    let mut p = RPos::empty();
    let swap = rng.chance(1, 2);
    let (wk, bk) = if swap { (60usize, 4usize) } else { (4usize, 60usize) };
    if rng.chance(7, 8) {
        p.sq[wk] = pc(K, WHITE);
    } else {
        p.sq[rng.below(64)] = pc(K, WHITE);
    }
    if p.sq[bk] == 0 && rng.chance(7, 8) {
        p.sq[bk] = pc(K, BLACK);
    } else {
        let s = rng.below(64);
        if p.sq[s] == 0 {
            p.sq[s] = pc(K, BLACK);
        }
    }
    for corner in [0usize, 7, 56, 63].iter() {
        if p.sq[*corner] == 0 && rng.chance(3, 4) {
            let c = if rng.chance(3, 4) { if (*corner < 8) != swap { WHITE } else { BLACK } } else { rng.below(2) as u8 };
            p.sq[*corner] = pc(if rng.chance(7, 8) { R } else { Q }, c);
        }
    }
    // shields beside the kings so that rooks on the back ranks do not give check
    for s in [3usize, 5, 59, 61].iter() {
        if p.sq[*s] == 0 && rng.chance(4, 5) {
            let near_white = (*s < 8) != swap;
            p.sq[*s] = pc(*rng.pick(&[N, B]), if near_white { WHITE } else { BLACK });
        }
    }
    for _ in 0..rng.below(4) {
        let s = rng.range(8, 55);
        if p.sq[s] == 0 {
            p.sq[s] = pc(*rng.pick(&[P, N, B]), rng.below(2) as u8);
        }
    }
    p.stm = rng.below(2) as u8;
    p.castle = match rng.below(4) {
        0 => 15,
        1 => *rng.pick(&[5u8, 10, 6, 9, 3, 12]),
        _ => rng.below(16) as u8,
    };
    builder_from_model(&p)
}

/// (nearly) full boards: the start position with the middle ranks filled, all rights, an e.p. candidate;
/// the longest renderings and the fullest move lists
pub fn full_board_builder(rng: &mut Rng) -> BoardBuilder {
    let mut p = RPos::startpos();
    for s in 16..48usize {
        if rng.chance(15, 16) {
            let c = if rng.chance(1, 2) { WHITE } else { BLACK };
            p.sq[s] = pc(*rng.pick(&[P, P, P, P, N, B]), c);
        }
    }
    p.stm = rng.below(2) as u8;
    // an e.p. candidate: a pawn of the side that just moved on its fourth rank with an enemy pawn beside it
    let f = rng.range(1, 6);
    let (r4, mover) = if p.stm == BLACK { (3usize, WHITE) } else { (4usize, BLACK) };
    p.sq[r4 * 8 + f] = pc(P, mover);
    p.sq[r4 * 8 + f - 1] = pc(P, mover ^ 1);
    p.ep = Some(if mover == WHITE { (2 * 8 + f) as u8 } else { (5 * 8 + f) as u8 });
    if rng.chance(1, 4) {
        p.castle = rng.below(16) as u8;
    }
    // remove whatever attacks the king of the side not to move
    for _ in 0..40 {
        let k = match p.king_sq(p.stm ^ 1) {
            Some(k) => k,
            None => break,
        };
        let att = p.attackers(k, p.stm);
        if att == 0 {
            break;
        }
        let s = att.trailing_zeros() as usize;
        if kind(p.sq[s]) == K {
            break;
        }
        p.sq[s] = 0;
    }
    builder_from_model(&p)
}

pub fn run_c07(ctx: &Ctx, rep: &mut Report) {
    let miri = ctx.variant == Variant::Miri;
    let corpus = corpus_positions();
    // pinned regression inputs always run first (tiny): the crowded FEN from DESIGN section 1.3 and relatives
    let fens = [
        "7k/8/PPPPPPPP/8/PPPPPPPP/8/PPPP4/K7 w - - 0 1",
        "k7/pppp4/8/pppppppp/8/pppppppp/8/7K b - - 0 1",
        "QQQQQQQk/QQQQQQ2/QQQQQQQQ/QQQQQQQQ/QQQQQQQQ/QQQQQQQQ/QQQQQQQQ/KQQQQQQQ w - - 0 1",
        "NNNNNNNN/NNNNNNNN/NNNNNNNN/NNNNNNNN/NNNNNNNN/NNNNNNNN/NNNNNN2/KNNNNN1k w - - 0 1",
        "7k/8/8/PpPpPpPp/8/RRRRRRRR/NNNNNNNN/KBBBBBBB w - b6 0 1",
        "8/8/8/8/8/8/8/8 w - - 0 1",
        "kK6/8/8/8/8/8/8/8 w - - 0 1",
        "k6K/8/8/8/8/8/8/8 w KQkq - 0 1",
        "4k3/8/8/8/8/8/8/4K3 w - e3 0 1",
        "4k3/8/8/8/4P3/8/8/4K3 b - e3 0 1",
        "4k3/8/8/8/3pP3/8/8/4K3 b - e3 0 1",
        "4k3/8/8/8/3pP3/8/8/4K3 w - e3 0 1",
        "4k3/8/8/3pP3/8/8/8/4K3 w - d6 0 1",
        "rnbqkbnr/pppppppp/8/8/8/8/PPPPPPPP/RNBQKBNR w KQkq - 0 1",
        "rnbqkbnr/pppppppp/8/8/8/8/PPPPPPPP/RNBQKBNR w KQkq -",
        "rnbqkbnr/pppppppp/8/8/8/8/PPPPPPPP/RNBQKBNR w KQkq",
        "",
        " ",
        "   ",
        "8/8/8/8/8/8/8/8/8/8/8/8/8/8/8/8/4k2K w - - 0 1",
        "99999999/k7/K7 w - - 0 1",
        "7k/8/1P1P1P1P/P1P1P1P1/1P1P1P1P/P1P1P1P1/1P1P1P1P/K7 w - - 0 1",
        "k7/8/8/8/8/8/NNNNNNNN/KNNNNNNN w - - 0 1",
        "7k/PPPPPPPP/8/8/8/8/PPPPPPPP/K7 w - - 0 1",
        "rnbqkbnr/pppppppp/pppppppp/pppppppp/PPPpPPPP/PPPPPPPP/PPPPPPPP/RNBQKBNR b KQkq e3 0 1",
        "rnbqkbnr/pppppppp/pnpnpnpn/pPpppppp/PPPPPPPP/NPNPNPNP/PPPPPPPP/RNBQKBNR w KQkq a6 0 1",
        "r2nKn1r/8/8/8/8/8/8/R2NkN1R w KQkq - 0 1",
        "r2nKn1r/8/8/8/8/8/8/R2NkN1R b Kq - 0 1",
    ];
    // pinned regression inputs always run first (tiny): the crowded FEN from DESIGN section 1.3 and relatives;
    // one input per case so that the shards share them
    let nd = fens.len() as u64;
    ctx.cases(rep, "directed", (nd + ctx.nshards as u64 - 1) / ctx.nshards as u64, |gid, _rng, rep| {
        if gid >= nd {
            return;
        }
        let f = fens[gid as usize];
        judge_text(f, false, rep);
        rep.count("ev_directed_inputs");
        if gid == 0 {
            rep.sample("7k/8/PPPPPPPP/8/PPPPPPPP/8/PPPP4/K7 w - - 0 1 (28 pawns: submitted, then used if accepted)".to_string());
        }
    });
    ctx.cases(rep, "crowded", if miri { 1 } else { 20 }, |_g, rng, rep| {
        for _ in 0..(if miri { 1 } else { 15 }) {
            let bb = crowded_builder(rng);
            rep.count("ev_crowded_submitted");
            judge_builder_paths(&bb, "crowded", false, rng, rep);
            // (one such board per run suffices in the interpreter: a 50-man move list costs it minutes)
            if !miri || ctx.shard == 0 {
                let bb = lattice_builder(rng);
                rep.count("ev_lattice_submitted");
                judge_builder_paths(&bb, "lattice", false, rng, rep);
            }
        }
    });
    // text stream
    let n = ctx.budget(5000, 80_000, 2, 1500);
    ctx.cases(rep, "text", n, |gid, rng, rep| {
        // a real position to start from
        let base = match rng.below(3) {
            0 => corpus[rng.below(corpus.len())].clone(),
            1 => {
                let d = *rng.pick(&[Density::Sparse, Density::Medium, Density::Crowded]);
                synth::synth(rng, d)
            }
            _ => synth::synth_ep(rng).final_pos(),
        };
        let valid_fen = base.fen();
        // (3) every valid position must be accepted, through text and through the builder
        rep.count("ev_valid_submitted");
        judge_text(&valid_fen, true, rep);
        judge_builder_paths(&builder_from_model(&base), "valid-model-position", true, rng, rep);
        judge_builder(&builder_from_model_shuffled(&base, rng), "valid-model-position-setters-shuffled", true, rep);
        if gid < 3 {
            rep.sample(format!("valid {:?} and mutants such as {:?}", valid_fen, mutate(rng, &valid_fen)));
        }
        let per = if miri { 4 } else { 60 };
        for _ in 0..per {
            let text = match rng.below(10) {
                0 | 1 | 2 | 3 | 4 => mutate(rng, &valid_fen),
                5 => random_text(rng, FEN_ALPHA, 80),
                6 => {
                    let m = mutate(rng, &valid_fen);
                    mutate(rng, &m)
                }
                7 => random_text(rng, WEIRD, 12),
                8 => {
                    // placement of random men, syntactically fine
                    let mut rows = vec![];
                    for _ in 0..8 {
                        let mut row = String::new();
                        let mut f = 0;
                        while f < 8 {
                            if rng.chance(1, 2) {
                                let k = rng.range(1, 8 - f);
                                row.push_str(&k.to_string());
                                f += k;
                            } else {
                                row.push_str(rng.pick_str(&["p", "n", "b", "r", "q", "P", "N", "B", "R", "Q", "P", "p", "k", "K"]));
                                f += 1;
                            }
                        }
                        rows.push(row);
                    }
                    format!("{} {} {} {} 0 1", rows.join("/"), rng.pick(&["w", "b"]), rng.pick(&["-", "KQkq", "K", "kq", "Qk"]), rng.pick(&["-", "e3", "d6", "a3", "h6"]))
                }
                _ => {
                    let bytes: Vec<u8> = (0..rng.below(60)).map(|_| rng.next() as u8).collect();
                    String::from_utf8_lossy(&bytes).into_owned()
                }
            };
            rep.count("ev_text_submitted");
            rep.seen(hash_bytes(text.as_bytes()));
            judge_text(&text, false, rep);
        }
    });
    // builder stream: arbitrary states, crowded boards
    let n = ctx.budget(3000, 50_000, 1, 1500);
    ctx.cases(rep, "builder", n, |gid, rng, rep| {
        let per = if miri { 4 } else { 40 };
        for i in 0..per {
            if i % 4 == 0 {
                let bb = crowded_builder(rng);
                rep.count("ev_crowded_submitted");
                if gid == 0 && i == 0 {
                    rep.sample(format!("crowded builder state: {}", bb));
                }
                judge_builder_paths(&bb, "crowded", false, rng, rep);
            } else if i % 8 == 5 {
                let bb = home_square_confusion(rng);
                rep.count("ev_home_confusion_submitted");
                judge_builder_paths(&bb, "home-square-confusion", false, rng, rep);
            } else if i % 8 == 1 {
                let bb = full_board_builder(rng);
                rep.count("ev_full_board_submitted");
                judge_builder_paths(&bb, "full-board", false, rng, rep);
            } else if i % 8 == 3 {
                // an edited copy of a validated board: Board -> BoardBuilder, then a few edits (mostly through
                // IndexMut only, which no setter sees), then back.  What the builder holds decides, not where it came from.
                let p = if rng.chance(1, 2) { synth::synth(rng, Density::Medium) } else { RPos::startpos() };
                if let Ok(b0) = Board::from_str(&p.fen()) {
                    let mut bb: BoardBuilder = if rng.chance(1, 2) { (&b0).into() } else { b0.into() };
                    let only_index = rng.chance(2, 3);
                    for _ in 0..rng.range(1, 3) {
                        let occupied: Vec<u8> = (0..64u8).filter(|s| p.sq[*s as usize] != 0).collect();
                        let s = match rng.below(4) {
                            0 => p.king_sq(rng.below(2) as u8).unwrap_or(0),
                            1 => *rng.pick(&occupied),
                            _ => rng.below(64) as u8,
                        };
                        let sq = Square::new(s);
                        let val = match rng.below(5) {
                            0 | 1 => None,
                            2 => Some((Piece::King, if rng.chance(1, 2) { Color::White } else { Color::Black })),
                            3 => Some((Piece::Pawn, if rng.chance(1, 2) { Color::White } else { Color::Black })),
                            _ => Some((Piece::Queen, if rng.chance(1, 2) { Color::White } else { Color::Black })),
                        };
                        if only_index || rng.chance(1, 2) {
                            bb[sq] = val;
                        } else {
                            match val {
                                Some((pc, c)) => {
                                    bb.piece(sq, pc, c);
                                }
                                None => {
                                    bb.clear_square(sq);
                                }
                            }
                        }
                    }
                    rep.count("ev_edited_copy_submitted");
                    judge_builder_paths(&bb, "edited-copy-of-board", false, rng, rep);
                }
            } else if i % 8 == 2 {
                // a valid position with one field perturbed
                let mut p = synth::synth(rng, Density::Medium);
                match rng.below(5) {
                    0 => p.castle = rng.below(16) as u8,
                    1 => p.stm ^= 1,
                    2 => {
                        let s = rng.below(64);
                        p.sq[s] = pc(*rng.pick(&[K, K, P, Q]), rng.below(2) as u8);
                    }
                    3 => p.ep = Some(rng.below(64) as u8),
                    _ => {
                        if let Some(k) = p.king_sq(rng.below(2) as u8) {
                            p.sq[k as usize] = 0;
                        }
                    }
                }
                rep.count("ev_perturbed_submitted");
                judge_builder_paths(&builder_from_model(&p), "perturbed", false, rng, rep);
            } else {
                let bb = arbitrary_builder(rng);
                rep.count("ev_arbitrary_submitted");
                judge_builder_paths(&bb, "arbitrary", false, rng, rep);
            }
        }
    });
}

#[allow(dead_code)]
fn _unused(_: Color, _: Piece, _: Square) {}
