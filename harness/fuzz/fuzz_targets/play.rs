#![no_main]
//! Coverage-guided positions and move sequences with the node monitor of one property
//! (selected by VERIF_FUZZ_PROP) as oracle.  Thorough tier of C01 C02 C03 C05 C06 C12 C14 C17 C18.
use harness::report::Report;
use libfuzzer_sys::fuzz_target;
use std::sync::OnceLock;

static PROP: OnceLock<String> = OnceLock::new();

fuzz_target!(|data: &[u8]| {
    let prop = PROP.get_or_init(|| std::env::var("VERIF_FUZZ_PROP").unwrap_or_else(|_| "C01".to_string()));
    let mut rep = Report::new(prop);
    harness::fuzzplay::run(prop, data, &mut rep);
    if rep.total_violations() > 0 {
        let v = &rep.violations[0];
        panic!("VIOLATION {} :: {}", v.sig, v.detail);
    }
});
