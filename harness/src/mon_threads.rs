//! Shared-state smoke test, run at the start of every Miri worker (and natively): the library is
//! documented and used as a collection of pure values and `const` tables, so the first use of each
//! entry point from several threads at once must be free of data races (Miri's race detector is the
//! oracle: an unsynchronised `static mut` cache or lazily filled table is undefined behaviour there)
//! and must give the same answers in every thread (compared here).
use crate::report::*;
use crate::walk::*;
use chess::*;
use std::convert::TryFrom;
use std::str::FromStr;

fn sample() -> Vec<String> {
    let mut out = vec![];
    let b = Board::default();
    out.push(format!("{:x}", b.get_hash()));
    out.push(format!("{}", MoveGen::new_legal(&b).len()));
    out.push(format!("{:?}", ChessMove::from_str("e2e4").ok()));
    out.push(format!("{:?}", ChessMove::from_san(&b, "Nf3").ok()));
    out.push(format!("{:?}", Square::from_str("h8").ok()));
    let b2 = Board::from_str("r3k2r/8/8/8/8/8/8/R3K2R w KQkq - 0 1").unwrap();
    out.push(format!("{:x}", get_rook_moves(Square::A1, *b2.combined()).0));
    out.push(format!("{:x}", get_bishop_moves(Square::C1, *b.combined()).0));
    out.push(format!("{:x}", between(Square::A1, Square::H8).0));
    out.push(format!("{:x}", line(Square::A1, Square::H8).0));
    out.push(format!("{:x}", get_king_moves(Square::E1).0 ^ get_knight_moves(Square::G1).0));
    out.push(format!("{:x}", get_pawn_moves(Square::E2, Color::White, *b.combined()).0));
    let nb = b.make_move_new(ChessMove::new(Square::E2, Square::E4, None));
    out.push(format!("{} {:x} {:?}", nb, nb.get_hash(), nb.status()));
    out.push(format!("{:?}", nb.null_move().map(|x| x.get_hash())));
    out.push(format!("{}", MoveGen::new_legal(&b2).count()));
    let mut g = Game::new();
    g.make_move(ChessMove::new(Square::G1, Square::F3, None));
    out.push(format!("{} {:?} {}", g.can_declare_draw(), g.result(), g.current_position()));
    let mut ct: CacheTable<u32> = CacheTable::new(16, 0);
    ct.add(b.get_hash(), 5);
    out.push(format!("{:?} {:?}", ct.get(b.get_hash()), ct.get(1)));
    // en-passant legality (rank exposure, two capturers), pins, checks, mates: every corner of move generation
    for fen in ["7k/8/8/K1Pp3r/8/8/8/8 w - d6 0 1", "7k/8/8/K1PpP2r/8/8/8/8 w - d6 0 1", "4k3/8/8/3pP3/8/8/8/4K3 w - d6 0 1", "4r2k/8/8/2PpP3/4K3/8/8/8 w - d6 0 1", "R6k/6pp/8/8/8/8/8/4K3 b - - 0 1", "4k3/8/8/8/7b/3n4/4r3/4K3 w - - 0 1", "r3k2r/p1ppqpb1/bn2pnp1/3PN3/1p2P3/2N2Q1p/PPPBBPPP/R3K2R w KQkq - 0 1"].iter() {
        match Board::from_str(fen) {
            Ok(x) => {
                let ms: Vec<ChessMove> = MoveGen::new_legal(&x).collect();
                let mut acc = 0u64;
                for m in ms.iter() {
                    acc = acc.wrapping_mul(31).wrapping_add(x.make_move_new(*m).get_hash());
                    acc ^= x.legal(*m) as u64;
                }
                out.push(format!("{} {} {:x} {:?} {:x} {:x}", x, ms.len(), acc, x.status(), x.pinned().0, x.checkers().0));
                out.push(format!("{:?} {:?}", ChessMove::from_san(&x, "exd6"), ChessMove::from_san(&x, "O-O")));
            }
            Err(e) => out.push(format!("{:?}", e)),
        }
    }
    let bb: BitBoard = Board::try_from(&BoardBuilder::from(nb)).map(|x: Board| *x.combined()).unwrap_or(EMPTY);
    out.push(format!("{:x} {}", bb.0, bb.popcnt()));
    out
}

pub fn threads_smoke(ctx: &Ctx, rep: &mut Report) {
    let prop = ctx.prop.clone();
    ctx.cases(rep, "threads", 1, |_gid, _rng, rep| {
        if ctx.shard >= 2 {
            return;
        }
        let hs: Vec<std::thread::JoinHandle<Vec<String>>> = (0..3).map(|_| std::thread::spawn(sample)).collect();
        let mut results: Vec<Vec<String>> = vec![];
        for h in hs {
            match h.join() {
                Ok(r) => results.push(r),
                Err(_) => rep.violation(&format!("{}/threads/panic", prop), "a thread using the library for the first time panicked".to_string()),
            }
        }
        results.push(sample());
        rep.count("ev_thread_smoke_runs");
        rep.add("ev_thread_smoke_results_compared", results.len() as u64);
        for r in results.iter().skip(1) {
            if *r != results[0] {
                rep.violation(&format!("{}/threads/results-differ", prop), format!("{:?} vs {:?}", results[0], r));
            }
        }
    });
}
