#!/usr/bin/env python3
"""Developer tool: copy confirmed seeded changes from the sub-agents' scratch worktrees into /verif/seeded/."""
import json, os, re, shutil, sys, glob
ROOT = os.path.dirname(os.path.dirname(os.path.abspath(__file__)))
outdir_name = sys.argv[1] if len(sys.argv) > 1 else "out"
suffix = sys.argv[2] if len(sys.argv) > 2 else ""
confirm_file = sys.argv[3] if len(sys.argv) > 3 else "/tmp/seeds_confirm.txt"
run_files = sys.argv[4:] if len(sys.argv) > 4 else glob.glob("/tmp/seeds_run_*.txt")
conf = {}
cur = None
for l in open(confirm_file):
    m = re.match(r"== (C\d+)/(\w) confirm", l)
    if m:
        cur = (m.group(1), m.group(2))
        continue
    if cur and l.startswith("{"):
        try:
            conf[cur] = json.loads(l)
        except Exception:
            pass
runs = {}
for f in run_files:
    cur = None
    for l in open(f):
        m = re.match(r"== (C\d+)/(\w)( run)?", l)
        if m:
            cur = (m.group(1), m.group(2))
            runs.setdefault(cur, dict(rc=None, signatures=[]))
            continue
        if cur:
            m = re.match(r"(C\d+) rc=(\d+)", l.strip())
            if m:
                runs[cur]["rc"] = int(m.group(2))
            m = re.match(r"\s*violated: (\S+) x(\d+)", l)
            if m:
                runs[cur]["signatures"].append(m.group(1))
n = 0
for (pid, v), c in sorted(conf.items()):
    src = "/tmp/wt/%s/%s/%s" % (pid, outdir_name, v)
    ok = all(val for k, val in c.items() if isinstance(val, bool))
    if not ok:
        print("NOT confirmed:", pid, v, c)
        continue
    dst = os.path.join(ROOT, "seeded", "%s-%s%s" % (pid, suffix, v))
    os.makedirs(dst, exist_ok=True)
    shutil.copy(os.path.join(src, "patch.diff"), dst)
    shutil.copy(os.path.join(src, "demo.rs"), dst)
    notes = open(os.path.join(src, "notes.md")).read() if os.path.exists(os.path.join(src, "notes.md")) else ""
    r = runs.get((pid, v), {})
    meta = dict(id="%s-%s%s" % (pid, suffix, v), property=pid, origin="independent sub-agent given only the property text and a scratch worktree of /repo (HEAD incl. the fix: commits)",
                needs_to_manifest=notes.strip()[:2500],
                confirmed=dict(c, how="tools/seedtest.py confirm: fresh scratch worktree; demo passes without the patch; with the patch the 36 unit tests and the doc tests pass and the demo fails"),
                check_result=dict(command="tools/seedtest.py run --only ubchk,bmi2 patch.diff %s (patch applied to a scratch worktree of /repo, ./check %s quick, native variants)" % (pid, pid), exit_code=r.get("rc"), caught=(r.get("rc") == 1), signatures=r.get("signatures", [])[:8]))
    json.dump(meta, open(os.path.join(dst, "meta.json"), "w"), indent=1)
    n += 1
print("stored", n)
