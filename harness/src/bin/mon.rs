//! Worker: mon <ID> --tier quick|thorough --seed S --shard i/n [--variant native|miri|san]
//!              [--case K] [--out DIR]
//!         mon merge-distinct FILE...      -> prints the size of the union
//!         mon merge-hashlog FILE...       -> offline checker for C08/C09 records
//!         mon selfcheck                   -> model perft self-check
use harness::mon_walk::describe_packed;
use harness::report::Report;
use harness::walk::*;
use std::io::Read;

fn merge_distinct(files: &[String]) {
    let mut all: Vec<u64> = vec![];
    for f in files {
        let mut buf = vec![];
        match std::fs::File::open(f).and_then(|mut h| h.read_to_end(&mut buf)) {
            Ok(_) => {}
            Err(e) => {
                println!("{{\"t\":\"error\",\"msg\":\"cannot read {}: {}\"}}", f, e);
                std::process::exit(3);
            }
        }
        for c in buf.chunks_exact(8) {
            let mut a = [0u8; 8];
            a.copy_from_slice(c);
            all.push(u64::from_le_bytes(a));
        }
    }
    all.sort_unstable();
    all.dedup();
    println!("{{\"t\":\"distinct\",\"count\":{}}}", all.len());
}

/// records: 34 bytes packed position, 8 bytes get_hash, 8 bytes std hash
fn merge_hashlog(files: &[String]) {
    const R: usize = 50;
    let mut buf: Vec<u8> = vec![];
    for f in files {
        if let Err(e) = std::fs::File::open(f).and_then(|mut h| h.read_to_end(&mut buf)) {
            println!("{{\"t\":\"error\",\"msg\":\"cannot read {}: {}\"}}", f, e);
            std::process::exit(3);
        }
    }
    let n = buf.len() / R;
    let mut idx: Vec<u32> = (0..n as u32).collect();
    let rec = |i: u32| &buf[i as usize * R..(i as usize + 1) * R];
    // fingerprint -> hash must be a function
    idx.sort_unstable_by(|a, b| rec(*a)[..34].cmp(&rec(*b)[..34]));
    let mut distinct_pos = 0u64;
    let mut multi = 0u64;
    let mut path_viol = 0u64;
    let mut std_viol = 0u64;
    let mut out = vec![];
    let mut i = 0;
    let mut reps: Vec<u32> = vec![];
    while i < n {
        let mut j = i + 1;
        while j < n && rec(idx[j])[..34] == rec(idx[i])[..34] {
            j += 1;
        }
        distinct_pos += 1;
        reps.push(idx[i]);
        if j - i > 1 {
            multi += 1;
            for k in i + 1..j {
                if rec(idx[k])[34..42] != rec(idx[i])[34..42] {
                    path_viol += 1;
                    if out.len() < 5 {
                        out.push(format!("{{\"t\":\"viol\",\"sig\":\"C08/offline/position-with-two-hashes\",\"case\":0,\"detail\":\"{} seen with get_hash {:02x?} and {:02x?}\"}}", describe_packed(&rec(idx[i])[..34]), &rec(idx[i])[34..42], &rec(idx[k])[34..42]));
                    }
                    break;
                }
                if rec(idx[k])[42..50] != rec(idx[i])[42..50] {
                    std_viol += 1;
                    if out.len() < 5 {
                        out.push(format!("{{\"t\":\"viol\",\"sig\":\"C08/offline/std-hash-differs-for-equal-positions\",\"case\":0,\"detail\":\"{}\"}}", describe_packed(&rec(idx[i])[..34])));
                    }
                    break;
                }
            }
        }
        i = j;
    }
    // hash -> position must be injective on what was seen
    reps.sort_unstable_by(|a, b| rec(*a)[34..42].cmp(&rec(*b)[34..42]));
    let mut collisions = 0u64;
    for w in reps.windows(2) {
        if rec(w[0])[34..42] == rec(w[1])[34..42] {
            collisions += 1;
            if out.len() < 10 {
                out.push(format!("{{\"t\":\"viol\",\"sig\":\"C09/offline/collision\",\"case\":0,\"detail\":\"{} and {} share get_hash {:02x?}\"}}", describe_packed(&rec(w[0])[..34]), describe_packed(&rec(w[1])[..34]), &rec(w[0])[34..42]));
            }
        }
    }
    for o in out {
        println!("{}", o);
    }
    println!(
        "{{\"t\":\"hashlog\",\"records\":{},\"distinct_positions\":{},\"positions_seen_more_than_once\":{},\"path_violations\":{},\"std_hash_violations\":{},\"collisions\":{}}}",
        n, distinct_pos, multi, path_viol, std_viol, collisions
    );
}

fn main() {
    let args: Vec<String> = std::env::args().skip(1).collect();
    if args.is_empty() {
        eprintln!("usage: mon <ID> --tier T --seed S --shard i/n [--variant V] [--case K] [--out DIR]");
        std::process::exit(3);
    }
    match args[0].as_str() {
        "merge-distinct" => return merge_distinct(&args[1..]),
        "merge-hashlog" => return merge_hashlog(&args[1..]),
        "scenstats" => {
            // developer aid: acceptance rate of each directed recipe
            let mut rng = harness::rng::Rng::new(42);
            for id in 0..harness::synth::N_SCEN {
                let mut ok = 0;
                let mut pinned_only_ep = 0;
                let mut sample = String::new();
                let n = 300;
                for _ in 0..n {
                    if let Some(s) = harness::synth::scenario(&mut rng, id) {
                        ok += 1;
                        if id == 18 {
                            let f = s.final_pos();
                            let lm = f.legal_moves();
                            if lm.len() == 1 && f.pinned() & (1u64 << lm[0].from) != 0 {
                                pinned_only_ep += 1;
                            }
                        }
                        if sample.is_empty() {
                            sample = format!("{} prelude {:?}", s.pos.fen(), s.prelude.iter().map(|m| m.uci()).collect::<Vec<_>>());
                        }
                    }
                }
                println!("{:2} {:24} {:3}/{} {}{}", id, harness::synth::SCEN_NAMES[id], ok, n, sample, if id == 18 { format!(" [only move = e.p. by a pinned pawn: {}]", pinned_only_ep) } else { String::new() });
            }
            return;
        }
        "noop" => {
            println!("{{\"t\":\"noop\"}}");
            return;
        }
        "selfcheck" => {
            match harness::refchess::self_check(true) {
                Ok(()) => println!("{{\"t\":\"selfcheck\",\"ok\":true}}"),
                Err(e) => {
                    println!("{{\"t\":\"selfcheck\",\"ok\":false,\"msg\":{}}}", harness::report::jstr(&e));
                    std::process::exit(3);
                }
            }
            return;
        }
        _ => {}
    }
    let prop = args[0].clone();
    let mut ctx = Ctx { prop: prop.clone(), tier: Tier::Quick, variant: Variant::Native, seed: 1, shard: 0, nshards: 1, only_case: None, out_dir: None, mode: String::new(), arg: None };
    let mut i = 1;
    while i < args.len() {
        let v = args.get(i + 1).cloned().unwrap_or_default();
        match args[i].as_str() {
            "--tier" => ctx.tier = if v == "thorough" { Tier::Thorough } else { Tier::Quick },
            "--seed" => ctx.seed = v.parse().unwrap_or(1),
            "--shard" => {
                let mut it = v.split('/');
                ctx.shard = it.next().and_then(|x| x.parse().ok()).unwrap_or(0);
                ctx.nshards = it.next().and_then(|x| x.parse().ok()).unwrap_or(1);
            }
            "--variant" => {
                ctx.variant = match v.as_str() {
                    "miri" => Variant::Miri,
                    "san" => Variant::San,
                    _ => Variant::Native,
                }
            }
            "--case" => ctx.only_case = v.parse().ok(),
            "--out" => ctx.out_dir = Some(v),
            "--mode" => ctx.mode = v,
            "--arg" => ctx.arg = Some(v),
            _ => {
                eprintln!("unknown argument {}", args[i]);
                std::process::exit(3);
            }
        }
        i += 2;
    }
    silence_panics();
    // model self-check: a failure is a harness error (inconclusive), never a violation
    if let Err(e) = harness::refchess::self_check_depth(if ctx.variant == Variant::Miri { 1 } else { 3 }) {
        println!("{{\"t\":\"error\",\"msg\":{}}}", harness::report::jstr(&format!("model self-check failed: {}", e)));
        std::process::exit(3);
    }
    let mut rep = Report::new(&prop);
    // first use of the library in this process: from several threads at once (see mon_threads)
    harness::mon_threads::threads_smoke(&ctx, &mut rep);
    match prop.as_str() {
        "C01" => harness::runners::run_c01(&ctx, &mut rep),
        "C02" => harness::runners::run_c02(&ctx, &mut rep),
        "C03" => harness::runners::run_c03(&ctx, &mut rep),
        "C04" => harness::mon_valid::run_c04(&ctx, &mut rep),
        "C05" => harness::runners::run_c05(&ctx, &mut rep),
        "C06" => harness::runners::run_c06(&ctx, &mut rep),
        "C07" => harness::mon_valid::run_c07(&ctx, &mut rep),
        "C08" => harness::runners::run_hash(&ctx, &mut rep, true, false),
        "C09" => harness::runners::run_hash(&ctx, &mut rep, false, true),
        "C10" => harness::mon_game::run_game(&ctx, &mut rep, true, false),
        "C11" => harness::mon_game::run_game(&ctx, &mut rep, false, true),
        "C12" => harness::mon_san::run_c12(&ctx, &mut rep),
        "C13" => harness::mon_tables::run_c13(&ctx, &mut rep),
        "C14" => harness::mon_movegen::run_c14(&ctx, &mut rep),
        "C15" => harness::mon_tables::run_c15(&ctx, &mut rep),
        "C16" => harness::mon_tables::run_c16(&ctx, &mut rep),
        "C17" => harness::runners::run_c17(&ctx, &mut rep),
        "C18" => harness::runners::run_c18(&ctx, &mut rep),
        "C19" => harness::mon_tables::run_c19(&ctx, &mut rep),
        "C20" => harness::mon_tables::run_c20(&ctx, &mut rep),
        _ => {
            eprintln!("unknown property {}", prop);
            std::process::exit(3);
        }
    }
    rep.emit(ctx.out_dir.as_deref(), ctx.shard);
    println!("{{\"t\":\"done\"}}");
}
