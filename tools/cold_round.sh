#!/bin/bash
# Developer tool: cold-run every seed of a round (wtroot/<PID>/out/<v>/patch.diff) that has no cold result yet.
# Meant for `vp run -- tools/cold_round.sh /tmp/wt11` so that the harness is frozen at the committed state.
wt=$1
./check --setup || exit 2
for d in $wt/C*/; do p=$(basename $d); for v in a b c; do
  if [ -f $wt/$p/out/$v/patch.diff ] && [ -f $wt/results/confirm_${p}_$v.json ] && [ ! -f $wt/results/cold_${p}_$v.json ]; then
    echo "== $p $v"; tools/roundrun.py cold $wt $p $v
  fi
done; done
