//! C10 / C11: the Game protocol automaton (DESIGN appendix B.2) run over adversarial action sequences.
use crate::conv::*;
use crate::corpus::corpus_positions;
use crate::refchess::*;
use crate::report::*;
use crate::rng::Rng;
use crate::synth::{self, Density};
use crate::walk::*;
use chess::{Action, Board, ChessMove, Color, Game, GameResult, Piece, Square};
use std::collections::HashMap;
use std::str::FromStr;

#[derive(Clone, Copy, PartialEq, Debug)]
enum MAct {
    Move(RMove),
    Offer(u8),
    Accept,
    Declare,
    Resign(u8),
}

struct ModelGame {
    start: RPos,
    cur: RPos,
    log: Vec<MAct>,
    /// occurrences keyed by FIDE identity (e.p. only if a legal capture exists)
    occ_fide: HashMap<Vec<u8>, u32>,
    /// occurrences keyed with the e.p. state "a pawn stands beside the pushed pawn" (what the library records)
    occ_lib: HashMap<Vec<u8>, u32>,
    /// occurrences keyed by placement and side to move only (look-alikes that differ in rights / e.p.)
    occ_look: HashMap<Vec<u8>, u32>,
    clock: u32,
    max_clock: u32,
    /// > 0 for a few plies after a fifty-move window that had become claimable was closed by an irreversible move
    since_claimable_window_closed: u32,
    /// half-move index (in moves) at which castling rights last changed
    last_rights_change: Option<u32>,
    nmoves: u32,
}

fn key(p: &RPos, ep: bool) -> Vec<u8> {
    let mut v = p.sq.to_vec();
    v.push(p.stm);
    v.push(p.castle);
    v.push(if ep { p.ep.unwrap_or(0xff) } else { 0xff });
    v
}

impl ModelGame {
    fn new(start: &RPos) -> ModelGame {
        let mut g = ModelGame { start: start.clone(), cur: start.clone(), log: vec![], occ_fide: HashMap::new(), occ_lib: HashMap::new(), occ_look: HashMap::new(), clock: 0, max_clock: 0, since_claimable_window_closed: 0, last_rights_change: None, nmoves: 0 };
        g.note_position();
        g
    }
    fn note_position(&mut self) {
        let kf = key(&self.cur, self.cur.ep_legal_capture_exists());
        let kl = key(&self.cur, self.cur.ep_pawn_adjacent());
        *self.occ_fide.entry(kf).or_insert(0) += 1;
        *self.occ_lib.entry(kl).or_insert(0) += 1;
        let mut look = self.cur.sq.to_vec();
        look.push(self.cur.stm);
        *self.occ_look.entry(look).or_insert(0) += 1;
    }
    fn reps_fide(&self) -> u32 {
        *self.occ_fide.get(&key(&self.cur, self.cur.ep_legal_capture_exists())).unwrap_or(&0)
    }
    fn reps_lib(&self) -> u32 {
        *self.occ_lib.get(&key(&self.cur, self.cur.ep_pawn_adjacent())).unwrap_or(&0)
    }
    fn result(&self) -> Option<GameResult> {
        match self.cur.status() {
            RStatus::Checkmate => Some(if self.cur.stm == WHITE { GameResult::BlackCheckmates } else { GameResult::WhiteCheckmates }),
            RStatus::Stalemate => Some(GameResult::Stalemate),
            RStatus::Ongoing => match self.log.last() {
                Some(MAct::Accept) => Some(GameResult::DrawAccepted),
                Some(MAct::Declare) => Some(GameResult::DrawDeclared),
                Some(MAct::Resign(c)) => Some(if *c == WHITE { GameResult::WhiteResigns } else { GameResult::BlackResigns }),
                _ => None,
            },
        }
    }
    fn apply_move(&mut self, m: RMove) {
        let irreversible = kind(self.cur.sq[m.from as usize]) == P || self.cur.is_capture(m);
        let before = self.cur.castle;
        self.cur = self.cur.make(m);
        self.nmoves += 1;
        self.since_claimable_window_closed = self.since_claimable_window_closed.saturating_sub(1);
        if irreversible {
            if self.clock >= 100 {
                self.since_claimable_window_closed = 4;
            }
            self.clock = 0;
        } else {
            self.clock += 1;
        }
        self.max_clock = self.max_clock.max(self.clock);
        if self.cur.castle != before {
            self.last_rights_change = Some(self.nmoves);
        }
        self.log.push(MAct::Move(m));
        self.note_position();
    }
    /// only-if condition of accept_draw
    fn accept_allowed(&self) -> bool {
        let n = self.log.len();
        if n >= 1 {
            if let MAct::Offer(_) = self.log[n - 1] {
                return true;
            }
        }
        if n >= 2 {
            if let (MAct::Offer(c), MAct::Move(_)) = (self.log[n - 2], self.log[n - 1]) {
                // the mover of the last move is the side NOT to move now
                return c == self.cur.stm ^ 1;
            }
        }
        false
    }
}

fn act_eq(a: &Action, m: &MAct) -> bool {
    match (a, m) {
        (Action::MakeMove(x), MAct::Move(y)) => model_move(*x) == *y,
        (Action::OfferDraw(c), MAct::Offer(d)) => model_color(*c) == *d,
        (Action::AcceptDraw, MAct::Accept) => true,
        (Action::DeclareDraw, MAct::Declare) => true,
        (Action::Resign(c), MAct::Resign(d)) => model_color(*c) == *d,
        _ => false,
    }
}

pub struct GameMon {
    pub c10: bool,
    pub c11: bool,
}

struct Run<'a> {
    g: Game,
    m: ModelGame,
    frozen: Option<GameResult>,
    mon: &'a GameMon,
    trace: Vec<String>,
    /// the library accepted something the model cannot follow: stop judging this game
    dead: bool,
}

impl<'a> Run<'a> {
    fn ctx(&self) -> String {
        let n = self.trace.len();
        let tail: Vec<&String> = self.trace.iter().skip(n.saturating_sub(14)).collect();
        format!("start={} actions({} total, last shown)=[{}]", self.m.start.fen(), n, tail.iter().map(|s| s.as_str()).collect::<Vec<_>>().join(" "))
    }
    fn full_trace(&self) -> String {
        format!("start={} all-calls=[{}]", self.m.start.fen(), self.trace.join(" "))
    }

    /// checks made after every call
    fn after_call(&mut self, what: &str, returned: bool, expect_append: Option<MAct>, rep: &mut Report) {
        if returned {
            if let Some(a) = expect_append {
                // moves were already pushed by apply_move
                if !matches!(a, MAct::Move(_)) {
                    self.m.log.push(a);
                }
            }
        }
        if !self.mon.c10 || self.dead {
            return;
        }
        rep.eval();
        let acts = self.g.actions();
        if acts.len() != self.m.log.len() || !acts.iter().zip(self.m.log.iter()).all(|(a, b)| act_eq(a, b)) {
            rep.violation(&format!("C10/log/{}", what), format!("after {}={} the action log has {} entries, accepted calls {} ; {}", what, returned, acts.len(), self.m.log.len(), self.ctx()));
        }
        let cp = self.g.current_position();
        if !same_core(&read_board(&cp), &self.m.cur) {
            rep.violation(&format!("C10/position/{}", what), format!("current_position()={} expected {} ; {}", cp, self.m.cur.fen(), self.ctx()));
        }
        if model_color(self.g.side_to_move()) != self.m.cur.stm {
            rep.violation(&format!("C10/side-to-move/{}", what), self.ctx());
        }
        let rho = self.m.result();
        let got = self.g.result();
        if got != rho {
            rep.violation(&format!("C10/result/{:?}-expected-{:?}", got, rho), format!("after {} ; {}", what, self.ctx()));
        }
        if let Some(f) = self.frozen {
            if got != Some(f) {
                rep.violation("C10/result-changed", format!("was {:?} now {:?} after {} ; {}", f, got, what, self.ctx()));
            }
        } else if let Some(r) = got {
            self.frozen = Some(r);
            rep.count(&format!("ev_result_{:?}", r));
        }
    }
}

pub fn reversible_starts() -> Vec<&'static str> {
    vec![
        "4k3/8/8/8/8/8/8/R3K2R w KQ - 0 1",
        "r3k2r/8/8/8/8/8/8/4K3 b kq - 0 1",
        "r3k2r/8/8/8/8/8/8/R3K2R w KQkq - 0 1",
        "4k3/8/8/8/8/8/8/R3K2R b KQ - 0 1",
        "1n2k3/8/8/8/8/8/8/R3K1N1 w Q - 0 1",
        "4k2r/8/8/8/8/8/8/Q3K3 w k - 0 1",
        "8/8/4k3/8/8/3K4/8/R6r w - - 0 1",
        "8/1q6/4k3/8/8/3K4/6Q1/8 w - - 0 1",
        "8/8/2b1k3/8/8/3K1N2/8/8 b - - 0 1",
        "rnbqkbnr/pppppppp/8/8/8/8/PPPPPPPP/RNBQKBNR w KQkq - 0 1",
        "r1bqkb1r/pppppppp/2n2n2/8/8/2N2N2/PPPPPPPP/R1BQKB1R w KQkq - 0 1",
        "7k/8/8/8/8/8/8/KBN5 w - - 0 1",
        "6k1/8/8/2n5/8/8/8/K5R1 b - - 0 1",
    ]
}

/// few-piece starts with pawns about to promote (a quiet promotion inside a long reversible game)
pub fn promotion_starts() -> Vec<&'static str> {
    vec![
        "8/P7/K7/7k/8/8/8/8 w - - 0 1",
        "8/8/8/8/7K/k7/p7/8 b - - 0 1",
        "4k3/P6P/8/8/8/8/p6p/4K3 w - - 0 1",
        "8/1P4k1/8/8/8/8/1K4p1/8 b - - 0 1",
        "r3k3/7P/8/8/8/8/p7/4K2R w Kq - 0 1",
        "8/3P4/8/1k6/8/8/3p4/5K2 w - - 0 1",
    ]
}

#[derive(Clone, Copy, PartialEq)]
enum Policy {
    Random,
    Seek,
    Avoid,
    /// like Avoid, but at one chosen half-move a pawn move (preferably a quiet promotion) is played
    AvoidBreak(u32),
}

fn choose_move(rng: &mut Rng, m: &ModelGame, legal: &[RMove], pol: Policy) -> RMove {
    match pol {
        Policy::Random => *rng.pick(legal),
        Policy::Seek => {
            // prefer moves returning to an already seen position
            let mut best: Vec<RMove> = vec![];
            for mv in legal {
                let np = m.cur.make(*mv);
                let mut look = np.sq.to_vec();
                look.push(np.stm);
                // exact repetitions, and look-alikes (same placement, other rights) which must NOT count
                if m.occ_fide.contains_key(&key(&np, np.ep_legal_capture_exists())) || (m.occ_look.contains_key(&look) && rng.chance(1, 2)) {
                    best.push(*mv);
                }
            }
            if !best.is_empty() && rng.chance(4, 5) {
                *rng.pick(&best)
            } else {
                let rev: Vec<RMove> = legal.iter().cloned().filter(|mv| kind(m.cur.sq[mv.from as usize]) != P && !m.cur.is_capture(*mv)).collect();
                if !rev.is_empty() && rng.chance(9, 10) {
                    *rng.pick(&rev)
                } else {
                    *rng.pick(legal)
                }
            }
        }
        Policy::AvoidBreak(at) if m.nmoves == at || m.nmoves == at + 1 => {
            let quiet_promo: Vec<RMove> = legal.iter().cloned().filter(|mv| mv.promo != 0 && !m.cur.is_capture(*mv) && m.cur.make(*mv).has_legal_move()).collect();
            let pawn: Vec<RMove> = legal.iter().cloned().filter(|mv| kind(m.cur.sq[mv.from as usize]) == P && m.cur.make(*mv).has_legal_move()).collect();
            if !quiet_promo.is_empty() {
                *rng.pick(&quiet_promo)
            } else if !pawn.is_empty() {
                *rng.pick(&pawn)
            } else {
                choose_move(rng, m, legal, Policy::Avoid)
            }
        }
        Policy::AvoidBreak(_) => choose_move(rng, m, legal, Policy::Avoid),
        Policy::Avoid => {
            // a window that has become claimable but was not claimed: close it with a pawn move or a capture
            // (the claim must be refused again afterwards)
            if m.clock >= 101 && rng.chance(1, 5) {
                let closers: Vec<RMove> = legal.iter().cloned().filter(|mv| (kind(m.cur.sq[mv.from as usize]) == P || m.cur.is_capture(*mv)) && m.cur.make(*mv).has_legal_move()).collect();
                if !closers.is_empty() {
                    return *rng.pick(&closers);
                }
            }
            // once the fifty-move clock is high, sometimes finish the game with a quiet move (mate or stalemate)
            if m.clock >= 99 && rng.chance(1, 4) {
                let enders: Vec<RMove> = legal.iter().cloned().filter(|mv| kind(m.cur.sq[mv.from as usize]) != P && !m.cur.is_capture(*mv) && !m.cur.make(*mv).has_legal_move()).collect();
                if !enders.is_empty() {
                    return *rng.pick(&enders);
                }
            }
            // reversible, not ending the game, never a third occurrence; keep castling rights for a while
            let mut ok: Vec<RMove> = vec![];
            let mut ok_keep_rights: Vec<RMove> = vec![];
            for mv in legal {
                if kind(m.cur.sq[mv.from as usize]) == P || m.cur.is_capture(*mv) {
                    continue;
                }
                let np = m.cur.make(*mv);
                let c = *m.occ_fide.get(&key(&np, np.ep_legal_capture_exists())).unwrap_or(&0);
                let cl = *m.occ_lib.get(&key(&np, np.ep_pawn_adjacent())).unwrap_or(&0);
                if c >= 1 || cl >= 1 {
                    continue;
                }
                if !np.has_legal_move() {
                    continue;
                }
                // do not hang pieces: avoid squares attacked by the opponent when possible
                ok.push(*mv);
                if np.castle == m.cur.castle {
                    ok_keep_rights.push(*mv);
                }
            }
            let safe = |v: &Vec<RMove>| -> Vec<RMove> { v.iter().cloned().filter(|mv| !m.cur.make(*mv).attacked(mv.to, m.cur.stm ^ 1)).collect() };
            if !ok_keep_rights.is_empty() && rng.chance(97, 100) {
                let s = safe(&ok_keep_rights);
                return if !s.is_empty() { *rng.pick(&s) } else { *rng.pick(&ok_keep_rights) };
            }
            if !ok.is_empty() {
                let s = safe(&ok);
                return if !s.is_empty() { *rng.pick(&s) } else { *rng.pick(&ok) };
            }
            // allow a second occurrence if nothing fresh is left
            let rev: Vec<RMove> = legal
                .iter()
                .cloned()
                .filter(|mv| {
                    if kind(m.cur.sq[mv.from as usize]) == P || m.cur.is_capture(*mv) {
                        return false;
                    }
                    let np = m.cur.make(*mv);
                    *m.occ_fide.get(&key(&np, np.ep_legal_capture_exists())).unwrap_or(&0) < 2 && np.has_legal_move()
                })
                .collect();
            if !rev.is_empty() {
                *rng.pick(&rev)
            } else {
                *rng.pick(legal)
            }
        }
    }
}

impl GameMon {
    pub fn play(&self, start: &RPos, pol: Policy2, max_actions: usize, rng: &mut Rng, rep: &mut Report) -> u32 {
        let mut prelude: Vec<RMove> = vec![];
        let pol = match pol {
            Policy2::SeekAfterPrelude(pre) => {
                prelude = pre;
                Policy::Seek
            }
            Policy2::RandomAfterPrelude(pre) => {
                prelude = pre;
                Policy::Random
            }
            Policy2::AvoidAfterPrelude(pre) => {
                prelude = pre;
                Policy::Avoid
            }
            Policy2::Random => Policy::Random,
            Policy2::Seek => Policy::Seek,
            Policy2::Avoid => Policy::Avoid,
            Policy2::AvoidBreak => Policy::AvoidBreak(rng.range(4, 90) as u32),
        };
        let fen = start.fen();
        let g = if fen == RPos::startpos().fen() && rng.chance(1, 2) {
            Game::new()
        } else if rng.chance(1, 2) {
            match Game::from_str(&fen) {
                Ok(g) => g,
                Err(_) => {
                    rep.count("setup_rejected");
                    return 0;
                }
            }
        } else {
            match Board::from_str(&fen) {
                Ok(b) => Game::new_with_board(b),
                Err(_) => {
                    rep.count("setup_rejected");
                    return 0;
                }
            }
        };
        let mut run = Run { g, m: ModelGame::new(start), frozen: None, mon: self, trace: vec![], dead: false };
        rep.count("ev_games");
        rep.seen(hash_bytes(fen.as_bytes()) ^ rng.next());
        run.after_call("new", false, None, rep);
        let mut poke_after_result = rng.range(4, 14);
        // chatter: how often non-move actions are interleaved
        let chatter = match pol {
            Policy::Avoid | Policy::AvoidBreak(_) => 2,
            _ => *rng.pick(&[0u64, 5, 15, 30]),
        };
        let mut prev_legal: Vec<RMove> = vec![];
        for _step in 0..max_actions {
            if run.dead {
                rep.count("ev_games_abandoned_after_violation");
                break;
            }
            let rho = run.m.result();
            if rho.is_some() {
                if poke_after_result == 0 {
                    break;
                }
                poke_after_result -= 1;
                rep.count("ev_calls_after_result");
            }
            let legal = run.m.cur.legal_moves();
            let roll = rng.below(100) as u64;
            let claimable_m = run.m.clock >= 100 || run.m.reps_fide() >= 3;
            let near_window = run.m.clock >= 94 && run.m.clock <= 106;
            // ---- C11 queries are made at every step near interesting moments, otherwise sampled
            if run.m.since_claimable_window_closed > 0 {
                rep.count("ev_queries_after_claimable_window_closed");
            }
            if self.c11 && (near_window || run.m.reps_fide() >= 2 || claimable_m || run.m.since_claimable_window_closed > 0 || rng.chance(1, 12)) {
                self.query_claim(&mut run, rho, rep);
            }
            if roll < chatter || (rho.is_some() && roll < 60) {
                // a non-move action
                match rng.below(5) {
                    0 => {
                        let c = rng.below(2) as u8;
                        let r = run.g.offer_draw(lib_color(c));
                        run.trace.push(format!("offer({})={}", c, r));
                        rep.count("op_offer_draw");
                        if self.c10 && r && rho.is_some() {
                            rep.violation("C10/offer-accepted-after-result", run.ctx());
                        }
                        if !r && rho.is_none() {
                            rep.count("abst_refused_while_open");
                        }
                        run.after_call("offer_draw", r, Some(MAct::Offer(c)), rep);
                    }
                    1 => {
                        let allowed = rho.is_none() && run.m.accept_allowed();
                        let r = run.g.accept_draw();
                        run.trace.push(format!("accept={}", r));
                        rep.count("op_accept_draw");
                        if r {
                            rep.count("ev_accept_true");
                        }
                        if self.c10 && r && !allowed {
                            let why = if rho.is_some() { "after-result" } else { "without-pending-offer" };
                            rep.violation(&format!("C10/accept-draw/{}", why), run.ctx());
                        }
                        if !r && allowed {
                            rep.count("abst_refused_while_open");
                        }
                        run.after_call("accept_draw", r, Some(MAct::Accept), rep);
                    }
                    2 => {
                        if rng.chance(1, 4) || rho.is_some() {
                            let c = rng.below(2) as u8;
                            let r = run.g.resign(lib_color(c));
                            run.trace.push(format!("resign({})={}", c, r));
                            rep.count("op_resign");
                            if self.c10 && r && rho.is_some() {
                                rep.violation("C10/resign-accepted-after-result", run.ctx());
                            }
                            if !r && rho.is_none() {
                                rep.count("abst_refused_while_open");
                            }
                            run.after_call("resign", r, Some(MAct::Resign(c)), rep);
                        }
                    }
                    3 => {
                        // declare
                        let r = run.g.declare_draw();
                        run.trace.push(format!("declare={}", r));
                        rep.count("op_declare_draw");
                        self.judge_declare(&mut run, rho, r, rep);
                        run.after_call("declare_draw", r, Some(MAct::Declare), rep);
                    }
                    _ => {
                        // illegal move attempt: random triple, or a move that was legal one ply ago
                        let m = match rng.below(4) {
                            0 if !prev_legal.is_empty() => *rng.pick(&prev_legal),
                            1 if !legal.is_empty() => {
                                // a legal source/destination with the wrong promotion field
                                let l = *rng.pick(&legal);
                                let promo = if l.promo == 0 { *rng.pick(&[Q, R, B, N, K, P]) } else { *rng.pick(&[0, K, P]) };
                                RMove::new(l.from, l.to, promo)
                            }
                            2 if !legal.is_empty() => {
                                // pseudo-legal but illegal (leaves the king in check), if any
                                let ps: Vec<RMove> = run.m.cur.pseudo().into_iter().filter(|x| !legal.contains(x)).collect();
                                if ps.is_empty() {
                                    RMove::new(rng.below(64) as u8, rng.below(64) as u8, 0)
                                } else {
                                    *rng.pick(&ps)
                                }
                            }
                            _ => RMove::new(rng.below(64) as u8, rng.below(64) as u8, *rng.pick(&[0, 0, 0, Q, N])),
                        };
                        self.try_move(&mut run, m, rho, &legal, rep);
                    }
                }
                continue;
            }
            if legal.is_empty() {
                // game over by mate/stalemate: try a move anyway
                let m = RMove::new(rng.below(64) as u8, rng.below(64) as u8, 0);
                self.try_move(&mut run, m, rho, &legal, rep);
                continue;
            }
            let in_prelude = (run.m.nmoves as usize) < prelude.len();
            let m = if in_prelude && legal.contains(&prelude[run.m.nmoves as usize]) { prelude[run.m.nmoves as usize] } else { choose_move(rng, &run.m, &legal, pol) };
            prev_legal = legal.clone();
            self.try_move(&mut run, m, rho, &legal, rep);
            // right after a prelude (and now and then elsewhere) every pseudo-legal but illegal move is offered:
            // each must be refused and leave the game untouched
            if self.c10 && !run.dead && ((in_prelude && run.m.nmoves as usize == prelude.len()) || rng.chance(1, 12)) {
                let rho2 = run.m.result();
                let legal2 = run.m.cur.legal_moves();
                let ps: Vec<RMove> = run.m.cur.pseudo().into_iter().filter(|x| !legal2.contains(x)).collect();
                for x in ps.into_iter().take(12) {
                    rep.count("ev_pseudo_illegal_offered");
                    self.try_move(&mut run, x, rho2, &legal2, rep);
                    if run.dead {
                        break;
                    }
                }
            }
        }
        rep.max("max_actions_in_a_game", run.m.log.len() as u64);
        rep.max("max_clock_reached", run.m.clock as u64);
        if rep.samples.len() < 4 && run.trace.len() > 8 {
            let s = run.full_trace();
            rep.sample(if s.len() > 700 { format!("{}...", &s[..700]) } else { s });
        }
        run.m.max_clock
    }

    fn try_move(&self, run: &mut Run, m: RMove, rho: Option<GameResult>, legal: &[RMove], rep: &mut Report) {
        let is_legal = legal.contains(&m);
        let want = rho.is_none() && is_legal;
        let r = run.g.make_move(lib_move(m));
        run.trace.push(format!("{}={}", m.uci(), r));
        rep.count("op_make_move");
        if is_legal {
            rep.count("ev_legal_move_attempts");
        } else {
            rep.count("ev_illegal_move_attempts");
        }
        if self.c10 && r != want {
            let sig = if r {
                if rho.is_some() {
                    "C10/make_move/accepted-after-result"
                } else {
                    "C10/make_move/accepted-illegal"
                }
            } else {
                "C10/make_move/refused-legal"
            };
            rep.violation(sig, format!("make_move({}) = {} ; {}", m.uci(), r, run.ctx()));
        }
        if r && is_legal {
            if m.promo != 0 && !run.m.cur.is_capture(m) {
                rep.count("ev_quiet_promotions_played");
            }
            if run.m.cur.is_castle(m) {
                rep.count("ev_castlings_played");
            }
            let before = run.m.cur.castle;
            run.m.apply_move(m);
            if run.m.cur.castle != before {
                rep.count("ev_rights_changes_played");
            }
        } else if r {
            run.dead = true;
        }
        run.after_call("make_move", r, Some(MAct::Move(m)), rep);
    }

    fn claim_expected(run: &Run, rho: Option<GameResult>) -> Option<bool> {
        if rho.is_some() {
            return Some(false);
        }
        let fifty = run.m.clock >= 100;
        let rf = run.m.reps_fide() >= 3;
        let rl = run.m.reps_lib() >= 3;
        if fifty {
            return Some(true);
        }
        if rf != rl {
            return None; // ambiguous e.p. identity: not judged
        }
        Some(rf)
    }

    fn claim_sig(run: &Run, got: bool) -> String {
        let fifty = run.m.clock >= 100;
        let rights_in_window = match run.m.last_rights_change {
            Some(i) => run.m.nmoves - i < 100 && i > 0,
            None => false,
        };
        if got {
            "claimable-without-grounds".to_string()
        } else if fifty && run.m.reps_fide() < 3 {
            if rights_in_window {
                "fifty-move-refused/castling-rights-changed-in-window".to_string()
            } else {
                "fifty-move-refused".to_string()
            }
        } else {
            "threefold-refused".to_string()
        }
    }

    fn query_claim(&self, run: &mut Run, rho: Option<GameResult>, rep: &mut Report) {
        let got = run.g.can_declare_draw();
        rep.count("op_can_declare_draw");
        rep.eval();
        if run.m.clock >= 95 && run.m.clock <= 105 {
            rep.count("ev_queries_clock_95_105");
            if let Some(i) = run.m.last_rights_change {
                if run.m.nmoves - i < 100 {
                    rep.count("ev_queries_clock_95_105_rights_lost_in_window");
                }
            }
        }
        if run.m.clock >= 100 {
            rep.count("ev_queries_clock_ge_100");
        }
        if run.m.reps_fide() >= 3 {
            rep.count("ev_queries_threefold");
        }
        match GameMon::claim_expected(run, rho) {
            None => rep.count("abst_ambiguous_ep_identity"),
            Some(want) => {
                if got != want {
                    rep.violation(
                        &format!("C11/can_declare_draw/{}", GameMon::claim_sig(run, got)),
                        format!("can_declare_draw()={} expected {} (clock={} repetitions={} result={:?}) ; {}", got, want, run.m.clock, run.m.reps_fide(), rho, run.full_trace()),
                    );
                }
            }
        }
    }

    fn judge_declare(&self, run: &mut Run, rho: Option<GameResult>, r: bool, rep: &mut Report) {
        if !self.c11 {
            return;
        }
        rep.eval();
        match GameMon::claim_expected(run, rho) {
            None => rep.count("abst_ambiguous_ep_identity"),
            Some(want) => {
                if r != want {
                    rep.violation(
                        &format!("C11/declare_draw/{}", GameMon::claim_sig(run, r)),
                        format!("declare_draw()={} expected {} (clock={} repetitions={}) ; {}", r, want, run.m.clock, run.m.reps_fide(), run.full_trace()),
                    );
                }
            }
        }
        let n_before = run.m.log.len();
        let acts = run.g.actions().len();
        if r {
            rep.count("ev_declared");
            if run.g.result() != Some(GameResult::DrawDeclared) && run.m.cur.status() == RStatus::Ongoing {
                rep.violation("C11/declare_draw/not-ended-as-declared-draw", run.ctx());
            }
            if acts != n_before + 1 {
                rep.violation("C11/declare_draw/log", run.ctx());
            }
        } else if acts != n_before {
            rep.violation("C11/declare_draw/refused-but-changed-game", run.ctx());
        }
    }
}

#[derive(Clone)]
pub enum Policy2 {
    Random,
    Seek,
    Avoid,
    AvoidBreak,
    /// play the given moves first, then seek repetitions
    SeekAfterPrelude(Vec<RMove>),
    RandomAfterPrelude(Vec<RMove>),
    /// play the given moves first, then avoid repetitions and irreversible moves (fifty-move window)
    AvoidAfterPrelude(Vec<RMove>),
}

pub fn run_game(ctx: &Ctx, rep: &mut Report, c10: bool, c11: bool) {
    let miri = ctx.variant == Variant::Miri;
    let mon = GameMon { c10, c11 };
    let corpus = corpus_positions();
    let rev: Vec<RPos> = reversible_starts().iter().map(|f| RPos::from_fen(f).unwrap()).collect();
    let promo: Vec<RPos> = promotion_starts().iter().map(|f| RPos::from_fen(f).unwrap()).collect();
    let n = if c11 { ctx.budget(2500, 25_000, 1, 60) } else { ctx.budget(12_000, 150_000, 1, 200) };
    ctx.cases(rep, "games", n, |_gid, rng, rep| {
        let (start, pol, len) = if c11 {
            match rng.below(10) {
                8 | 9 => {
                    // e.p.-rich starts (pinned capturers, exposure) followed by repetition seeking:
                    // position identity must include the e.p. possibility
                    let id = *rng.pick(&[3usize, 13, 0, 1, 2, 13, 3]);
                    match synth::scenario_retry(rng, id) {
                        Some(st) => (st.pos, Policy2::SeekAfterPrelude(st.prelude), 40),
                        None => (rev[rng.below(rev.len())].clone(), Policy2::Seek, 60),
                    }
                }
                6 | 7 => {
                    let f = promo[rng.below(promo.len())].clone();
                    (if rng.chance(1, 2) { f } else { f.mirror_v() }, Policy2::AvoidBreak, 250)
                }
                0 | 1 => (rev[rng.below(rev.len())].clone(), Policy2::Avoid, 300),
                2 | 3 => (rev[rng.below(rev.len())].clone(), Policy2::Seek, 60),
                4 => {
                    let p = if rng.chance(1, 2) { rev[rng.below(rev.len())].clone() } else { rev[rng.below(rev.len())].mirror_v() };
                    (p, Policy2::Avoid, 240)
                }
                _ => (synth::synth_ep(rng).pos, Policy2::Seek, 50),
            }
        } else {
            match rng.below(11) {
                8 | 9 => {
                    // directed scenarios (e.p. exposure, pins, castling matrix ...): play the prelude, then random
                    let id = rng.below(synth::N_SCEN);
                    match synth::scenario_retry(rng, id) {
                        Some(st) => (st.pos, Policy2::RandomAfterPrelude(st.prelude), 30),
                        None => (RPos::startpos(), Policy2::Random, 60),
                    }
                }
                10 => {
                    // stalemates / only-move positions with many men on the board
                    let id = *rng.pick(&[17usize, 18, 17]);
                    match synth::scenario_retry(rng, id) {
                        Some(st) => (st.pos, Policy2::RandomAfterPrelude(st.prelude), 12),
                        None => (RPos::startpos(), Policy2::Random, 60),
                    }
                }
                0 => (RPos::startpos(), Policy2::Random, 120),
                1 => (corpus[rng.below(corpus.len())].clone(), Policy2::Random, 100),
                2 => (synth::synth(rng, Density::Sparse), Policy2::Random, 80),
                3 => (synth::scenario_retry(rng, 11).map(|s| s.pos).unwrap_or_else(RPos::startpos), Policy2::Random, 40),
                4 => (rev[rng.below(rev.len())].clone(), Policy2::Seek, 50),
                5 => (synth::synth(rng, Density::Medium), Policy2::Random, 100),
                6 => {
                    // already finished start positions: walk a sparse position to a terminal one with the model
                    let mut p = synth::scenario_retry(rng, 11).map(|s| s.pos).unwrap_or_else(RPos::startpos);
                    for _ in 0..60 {
                        let l = p.legal_moves();
                        if l.is_empty() {
                            break;
                        }
                        // greedy towards fewer replies
                        let mut best = l[0];
                        let mut bestn = usize::MAX;
                        for m in l.iter() {
                            let k = p.make(*m).legal_moves().len();
                            if k < bestn || (k == bestn && rng.chance(1, 3)) {
                                bestn = k;
                                best = *m;
                            }
                        }
                        p = p.make(best);
                    }
                    p.ep = None;
                    if p.has_legal_move() {
                        rep.count("ev_finished_start_missed");
                    } else {
                        rep.count("ev_finished_starts");
                    }
                    (p, Policy2::Random, 12)
                }
                _ => (rev[rng.below(rev.len())].clone(), Policy2::Avoid, 130),
            }
        };
        let len = if miri { len.min(14) } else { len };
        if !start.valid() {
            rep.count("harness_invalid_start");
            return;
        }
        mon.play(&start, pol, len, rng, rep);
    });
    // directed: every value of the promotion field on a promoting pawn's move (None, the four pieces, King,
    // Pawn) and on an ordinary move, as move attempts of a game: accepted exactly for the legal ones (also
    // under Miri: a lookup table indexed by the promotion piece ends one entry early for the king)
    if c10 {
        ctx.cases(rep, "promotion-attempts", 1, |_g, rng, rep| {
            if ctx.shard >= 4 {
                return;
            }
            for fen in ["4k3/P7/8/8/8/8/8/4K3 w - - 0 1", "1r2k3/P7/8/8/8/8/8/4K3 w - - 0 1", "4k3/8/8/8/8/8/p7/1R2K3 b - - 0 1", "4k3/8/8/8/8/8/4P3/4K3 w - - 0 1"].iter() {
                let start = RPos::from_fen(fen).unwrap();
                let mut run = Run { g: Game::new_with_board(Board::from_str(fen).unwrap()), m: ModelGame::new(&start), frozen: None, mon: &mon, trace: vec![], dead: false };
                rep.count("ev_games");
                let legal = run.m.cur.legal_moves();
                let mut tried: Vec<RMove> = vec![];
                for l in legal.iter() {
                    for promo in [0u8, K, P, Q, R, B, N].iter() {
                        let m = RMove::new(l.from, l.to, *promo);
                        if !legal.contains(&m) && !tried.contains(&m) {
                            tried.push(m);
                        }
                    }
                }
                rng.shuffle(&mut tried);
                for m in tried.iter().take(if miri { 8 } else { 60 }) {
                    rep.count("ev_promotion_field_attempts");
                    mon.try_move(&mut run, *m, None, &legal, rep);
                    if run.dead {
                        break;
                    }
                }
                // and a legal one goes through afterwards
                if !run.dead {
                    let m = *rng.pick(&legal);
                    mon.try_move(&mut run, m, None, &legal, rep);
                }
            }
        });
    }
    // directed: a very long action log (draw offers are logged and unbounded): counters and caches that
    // assume "a game is short" wrap or fall behind; few full checks, every return value judged
    if c10 && !miri && ctx.shard == 0 {
        ctx.cases(rep, "long-log", 1, |_g, _rng, rep| {
            let start = RPos::startpos();
            let mut run = Run { g: Game::new(), m: ModelGame::new(&start), frozen: None, mon: &mon, trace: vec![], dead: false };
            rep.count("ev_games");
            let opening = [RMove::new(12, 28, 0), RMove::new(52, 36, 0), RMove::new(6, 21, 0)];
            for m in opening.iter() {
                let legal = run.m.cur.legal_moves();
                mon.try_move(&mut run, *m, None, &legal, rep);
            }
            let n_offers = 66_000usize;
            for i in 0..n_offers {
                let c = (i % 2) as u8;
                let r = run.g.offer_draw(lib_color(c));
                rep.count("op_offer_draw");
                if !r {
                    // the statement does not oblige an open game to accept offers: not judged, the case ends
                    rep.count("abst_refused_while_open");
                    break;
                }
                run.m.log.push(MAct::Offer(c));
                if i % 8192 == 8191 || i + 1 == n_offers || (i >= 65_530 && i <= 65_540) {
                    run.trace.push(format!("...{} offers", i + 1));
                    run.after_call("offer_draw", false, None, rep);
                }
            }
            rep.max("max_actions_in_a_game", run.m.log.len() as u64);
            // the game goes on normally afterwards
            for m in [RMove::new(57, 42, 0), RMove::new(5, 26, 0), RMove::new(62, 45, 0)].iter() {
                let legal = run.m.cur.legal_moves();
                mon.try_move(&mut run, *m, None, &legal, rep);
                if run.dead {
                    break;
                }
            }
            rep.count("ev_long_log_games");
        });
    }
    // directed: the fifty-move window opened by each *kind* of irreversible move (en-passant capture,
    // capture by a piece, promotion with and without capture, single and double pawn step), and castling
    // inside the window (which is neither a pawn move nor a capture and must not restart the count)
    if c11 && !miri {
        ctx.cases(rep, "fifty-break-kinds", 2, |_g, rng, rep| {
            let mv = |a: &str, b: &str, promo: u8| {
                let sq = |t: &str| (t.as_bytes()[0] - b'a') + 8 * (t.as_bytes()[1] - b'1');
                RMove::new(sq(a), sq(b), promo)
            };
            let kinds: Vec<(&str, &str, Vec<RMove>)> = vec![
                ("ep_capture", "1n2k3/3p4/8/4P3/8/8/8/4K1N1 b - - 0 1", vec![mv("d7", "d5", 0), mv("e5", "d6", 0)]),
                ("ep_capture", "1n2k3/5p2/8/4P3/8/8/8/4K1N1 b - - 0 1", vec![mv("f7", "f5", 0), mv("e5", "f6", 0)]),
                ("ep_capture", "1n2k3/p7/8/1P6/8/8/8/4K1N1 b - - 0 1", vec![mv("a7", "a5", 0), mv("b5", "a6", 0)]),
                ("piece_capture", "1n2k3/8/8/3p4/8/4N3/8/4K3 w - - 0 1", vec![mv("e3", "d5", 0)]),
                ("king_capture", "1n2k3/8/8/8/8/8/3p4/4K1N1 w - - 0 1", vec![mv("e1", "d2", 0)]),
                ("promotion_capture", "1n1rk3/2P5/8/8/8/8/8/4K1N1 w - - 0 1", vec![mv("c7", "d8", N)]),
                ("promotion", "1n2k3/P7/8/8/8/8/8/4K1N1 w - - 0 1", vec![mv("a7", "a8", N)]),
                ("double_step", "1n2k3/8/8/8/8/8/7P/4K1N1 w - - 0 1", vec![mv("h2", "h4", 0)]),
                ("single_step", "1n2k3/8/8/8/8/8/7P/4K1N1 w - - 0 1", vec![mv("h2", "h3", 0)]),
                ("castling_inside_window", "1n2k3/8/8/8/8/8/4P3/R3K1N1 w Q - 0 1", vec![mv("e2", "e3", 0), mv("b8", "c6", 0), mv("g1", "f3", 0), mv("c6", "b4", 0), mv("e1", "c1", 0)]),
                ("castling_inside_window", "1n2k2r/4p3/8/8/8/8/8/4K1N1 b k - 0 1", vec![mv("e7", "e6", 0), mv("g1", "f3", 0), mv("b8", "c6", 0), mv("f3", "d4", 0), mv("e8", "g8", 0)]),
            ];
            for (name, fen, prelude) in kinds.into_iter() {
                let p = RPos::from_fen(fen).unwrap();
                let (p, prelude) = if rng.chance(1, 2) {
                    (p, prelude)
                } else {
                    (p.mirror_v(), prelude.into_iter().map(|m| RMove::new(vflip(m.from), vflip(m.to), m.promo)).collect())
                };
                let mut q = p.clone();
                for m in prelude.iter() {
                    assert!(q.is_legal(*m), "harness: prelude of break kind {} is not legal", name);
                    q = q.make(*m);
                }
                rep.count(&format!("ev_fifty_window_after_{}", name));
                if mon.play(&p, Policy2::AvoidAfterPrelude(prelude), 240, rng, rep) >= 100 {
                    rep.count(&format!("ev_fifty_boundary_crossed_after_{}", name));
                }
            }
        });
    }
    // directed: the fifty-move boundary with and without a castling-rights loss inside the window
    if c11 && !miri {
        ctx.cases(rep, "fifty-directed", 1, |_g, rng, rep| {
            if ctx.shard > 3 {
                return;
            }
            for (fen, lose_rights_at) in [("4k3/8/8/8/8/8/8/R3K2R w KQ - 0 1", Some(14usize)), ("4k3/8/8/8/8/8/8/R3K2R w - - 0 1", None), ("r3k2r/8/8/8/8/8/8/4K3 b kq - 0 1", Some(31)), ("r3k2r/8/8/8/8/8/8/R3K2R w KQkq - 0 1", Some(50))].iter() {
                let start = RPos::from_fen(fen).unwrap();
                let mut run = Run { g: Game::new_with_board(Board::from_str(fen).unwrap()), m: ModelGame::new(&start), frozen: None, mon: &mon, trace: vec![], dead: false };
                rep.count("ev_games");
                rep.count("ev_directed_fifty_games");
                for step in 0..140 {
                    let legal = run.m.cur.legal_moves();
                    if legal.is_empty() || run.m.result().is_some() {
                        break;
                    }
                    // before lose_rights_at: only moves that keep all rights; at that step: a move that changes rights
                    let m = {
                        let keep: Vec<RMove> = legal
                            .iter()
                            .cloned()
                            .filter(|mv| {
                                if kind(run.m.cur.sq[mv.from as usize]) == P || run.m.cur.is_capture(*mv) {
                                    return false;
                                }
                                let np = run.m.cur.make(*mv);
                                np.has_legal_move() && *run.m.occ_fide.get(&key(&np, false)).unwrap_or(&0) == 0 && !np.attacked(mv.to, np.stm)
                            })
                            .collect();
                        let changing: Vec<RMove> = keep.iter().cloned().filter(|mv| run.m.cur.make(*mv).castle != run.m.cur.castle).collect();
                        let keeping: Vec<RMove> = keep.iter().cloned().filter(|mv| run.m.cur.make(*mv).castle == run.m.cur.castle).collect();
                        if Some(step) == *lose_rights_at && !changing.is_empty() {
                            *rng.pick(&changing)
                        } else if !keeping.is_empty() {
                            *rng.pick(&keeping)
                        } else if !keep.is_empty() {
                            *rng.pick(&keep)
                        } else {
                            break;
                        }
                    };
                    mon.try_move(&mut run, m, None, &legal, rep);
                    let rho = run.m.result();
                    mon.query_claim(&mut run, rho, rep);
                }
                rep.max("max_clock_reached", run.m.clock as u64);
            }
        });
    }
}

/// One coverage-guided game (thorough tier, fuzz target `game`): the input bytes choose the start, the
/// policy and then every decision of `GameMon::play` (moves, draw offers, claims, resignations, illegal
/// move attempts); the automaton judges every return value as in the generated workloads.
pub fn fuzz_game(prop: &str, data: &[u8], rep: &mut Report) {
    if data.len() < 4 {
        return;
    }
    let mon = GameMon { c10: prop != "C11", c11: prop != "C10" };
    let mut rng = Rng::with_feed(hash_bytes(data), data);
    let rev = reversible_starts();
    let promo = promotion_starts();
    let (start, pol, len) = match rng.below(8) {
        0 => (RPos::startpos(), Policy2::Random, 60),
        1 => (RPos::from_fen(rev[rng.below(rev.len())]).unwrap(), Policy2::Seek, 60),
        2 => (RPos::from_fen(rev[rng.below(rev.len())]).unwrap(), Policy2::Avoid, 230),
        3 => (RPos::from_fen(promo[rng.below(promo.len())]).unwrap(), Policy2::AvoidBreak, 230),
        4 | 5 => {
            let id = rng.below(synth::N_SCEN);
            let seed = rng.next() | rng.next() << 16;
            match synth::scenario(&mut Rng::new(seed ^ 0xfeed), id) {
                Some(st) => (st.pos, Policy2::RandomAfterPrelude(st.prelude), 30),
                None => return,
            }
        }
        6 => (RPos::from_fen(rev[rng.below(rev.len())]).unwrap(), Policy2::Random, 80),
        _ => {
            let seed = rng.next() | rng.next() << 16;
            (synth::synth(&mut Rng::new(seed ^ 0xbead), Density::Sparse), Policy2::Random, 60)
        }
    };
    if !start.valid() {
        return;
    }
    mon.play(&start, pol, len, &mut rng, rep);
}

#[allow(dead_code)]
fn _unused(_: ChessMove, _: Color, _: Piece, _: Square) {}
