#![no_main]
//! Coverage-guided Game histories (moves, draw offers / claims, resignations, illegal attempts) with the
//! game automaton of C10 / C11 (selected by VERIF_FUZZ_PROP) as oracle.  Thorough tier of C10 and C11.
use harness::report::Report;
use libfuzzer_sys::fuzz_target;
use std::sync::OnceLock;

static PROP: OnceLock<String> = OnceLock::new();

fuzz_target!(|data: &[u8]| {
    let prop = PROP.get_or_init(|| std::env::var("VERIF_FUZZ_PROP").unwrap_or_else(|_| "C10".to_string()));
    let mut rep = Report::new(prop);
    harness::mon_game::fuzz_game(prop, data, &mut rep);
    if rep.total_violations() > 0 {
        let v = &rep.violations[0];
        panic!("VIOLATION {} :: {}", v.sig, v.detail);
    }
});
