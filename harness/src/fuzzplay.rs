//! Coverage-guided workload (thorough tier): libFuzzer bytes are decoded into a position (men,
//! side, rights - filtered by the model's validity predicate) and a short sequence of move
//! choices; the node monitor of the selected property runs at every node.  The fuzzer's coverage
//! feedback comes from the instrumented library, so rare branches of move generation and move
//! application are sought out automatically instead of by hand-written recipes.
use crate::mon_movegen::C14;
use crate::mon_san::C12;
use crate::mon_walk::*;
use crate::refchess::*;
use crate::report::Report;
use crate::rng::Rng;
use crate::synth::{fix_rights, Start};
use crate::walk::*;

pub struct Bytes<'a> {
    d: &'a [u8],
    i: usize,
}
impl<'a> Bytes<'a> {
    pub fn next(&mut self) -> u8 {
        let v = if self.i < self.d.len() { self.d[self.i] } else { 0 };
        self.i += 1;
        v
    }
    fn left(&self) -> usize {
        self.d.len().saturating_sub(self.i)
    }
}

/// a monitor adapter that replays the fuzzer's move choices
struct Chooser<'a, 'b> {
    bytes: &'a mut Bytes<'b>,
}

/// Three ways of obtaining the start: raw placement bytes, an instance of a directed recipe (recipe id
/// and RNG seed taken from the input, so the fuzzer can keep and mutate productive ones), or a
/// synthesised position with an e.p. state set up directly.
pub fn decode_start(b: &mut Bytes) -> Option<Start> {
    let mode = b.next();
    match mode % 4 {
        0 => {
            // (modulus fixed at 32 so that adding a recipe does not re-map stored inputs)
            let id = (b.next() as usize) % 32;
            if id >= crate::synth::N_SCEN {
                return None;
            }
            let seed = (b.next() as u64) | (b.next() as u64) << 8 | (b.next() as u64) << 16;
            let mut rng = Rng::new(seed ^ 0xfeed);
            crate::synth::scenario(&mut rng, id)
        }
        1 => {
            let seed = (b.next() as u64) | (b.next() as u64) << 8 | (b.next() as u64) << 16;
            let mut rng = Rng::new(seed ^ 0xbead);
            crate::synth::synth_ep_invented(&mut rng)
        }
        _ => decode_position(b).map(|p| Start::plain(p, "fuzz")),
    }
}

pub fn decode_position(b: &mut Bytes) -> Option<RPos> {
    let mut p = RPos::empty();
    let wk = b.next() & 63;
    let bk = b.next() & 63;
    if wk == bk {
        return None;
    }
    p.sq[wk as usize] = pc(K, WHITE);
    p.sq[bk as usize] = pc(K, BLACK);
    let n = (b.next() % 30) as usize;
    for _ in 0..n {
        let x = b.next();
        let s = (b.next() & 63) as usize;
        let k = [P, N, B, R, Q, P, P, N][(x & 7) as usize];
        let c = (x >> 3) & 1;
        if p.sq[s] != 0 || (k == P && (s >> 3 == 0 || s >> 3 == 7)) || p.men(c) >= 16 || (k == P && p.count(pc(P, c)) >= 8) {
            continue;
        }
        p.sq[s] = pc(k, c);
    }
    let x = b.next();
    p.stm = x & 1;
    p.castle = (x >> 1) & 15;
    fix_rights(&mut p);
    if p.in_check(p.stm ^ 1) {
        if p.in_check(p.stm) {
            return None;
        }
        p.stm ^= 1;
    }
    if p.valid() {
        Some(p)
    } else {
        None
    }
}

fn monitor_for(prop: &str) -> Option<Box<dyn NodeMon>> {
    Some(match prop {
        "C01" => Box::new(C01 { variant: Variant::Miri }),
        "C02" => Box::new(C02 { variant: Variant::San, dirty: None }),
        "C03" => Box::new(C03 { variant: Variant::San }),
        "C05" => Box::new(C05 { prev: None }),
        "C06" => Box::new(C06 {}),
        "C12" => Box::new(C12 { variant: Variant::Miri, prev: None }),
        "C14" => Box::new(C14 { variant: Variant::Miri }),
        "C17" => Box::new(C17 { inc_v: None, inc_h: None }),
        "C18" => Box::new(C18 {}),
        _ => return None,
    })
}

/// Inputs kept from coverage-guided runs of the `play` target against the unchanged library: each
/// reaches some branch combination the fuzzer found worth keeping.  They are replayed (natively, with
/// the property's own monitor) in the quick tier as a cheap stand-in for the fuzzing campaign itself.
pub fn stored_corpus() -> Vec<&'static [u8]> {
    static RAW: &[u8] = include_bytes!("../play_corpus.bin");
    let mut v = vec![];
    let mut i = 0;
    while i < RAW.len() {
        let n = RAW[i] as usize;
        if i + 1 + n > RAW.len() {
            break;
        }
        v.push(&RAW[i + 1..i + 1 + n]);
        i += 1 + n;
    }
    v
}

/// one fuzz input; violations are left in `rep`
pub fn run(prop: &str, data: &[u8], rep: &mut Report) {
    let mut mon = match monitor_for(prop) {
        Some(m) => m,
        None => return,
    };
    run_with(mon.as_mut(), data, rep, true);
}

/// the same, with a caller-supplied monitor; `stop_at_first` ends the input at the first violation
pub fn run_with(mon: &mut dyn NodeMon, data: &[u8], rep: &mut Report, stop_at_first: bool) {
    let mut bytes = Bytes { d: data, i: 0 };
    let start0 = match decode_start(&mut bytes) {
        Some(s) => s,
        None => return,
    };
    // the recipe's prelude is played through the library like any other choice
    let prelude = start0.prelude.clone();
    let start = Start::plain(start0.pos.clone(), "fuzz");
    let mut b = match setup(&start, rep) {
        Some(b) => b,
        None => {
            rep.violation("C07/rejected-valid-position/text", start.pos.fen());
            return;
        }
    };
    let mut p = start.pos.clone();
    mon.begin(&start, rep);
    // deterministic side stream for the monitors' own random choices
    let mut rng = Rng::new(crate::report::hash_bytes(data));
    let _ = Chooser { bytes: &mut bytes };
    let mut prev: Option<(chess::Board, RPos, RMove)> = None;
    let follow = mon.follows_library();
    for ply in 0..24usize {
        let legal = p.legal_moves();
        {
            let n = Node { b: &b, p: &p, legal: &legal, ply, prev: prev.as_ref().map(|(pb, pp, m)| (pb, pp, *m)), after_null: false, tag: "fuzz", incremental: ply > 0, diverged: false };
            mon.node(&n, rep, &mut rng);
        }
        if (stop_at_first && rep.total_violations() > 0) || bytes.left() == 0 {
            return;
        }
        rep.count("ev_fuzz_corpus_nodes");
        let choices: Vec<RMove> = if follow { crate::conv::lib_moves(&b).into_iter().map(crate::conv::model_move).collect() } else { legal.clone() };
        if choices.is_empty() {
            return;
        }
        let x = bytes.next() as usize;
        let m = if ply < prelude.len() && choices.contains(&prelude[ply]) { prelude[ply] } else { choices[x % choices.len()] };
        let lm = crate::conv::lib_move(m);
        if !follow && !b.legal(lm) {
            return;
        }
        let nb = if x & 0x80 != 0 {
            b.make_move_new(lm)
        } else {
            let mut out = b;
            b.make_move(lm, &mut out);
            out
        };
        let np = p.make(m);
        let lib_view = crate::conv::read_board(&nb);
        let soft = mon.through_rights_divergence() && lib_view.sq[..] == np.sq[..] && lib_view.stm == np.stm;
        if !follow && !soft && !crate::conv::same_core(&lib_view, &np) {
            let n = Node { b: &nb, p: &np, legal: &[], ply: ply + 1, prev: Some((&b, &p, m)), after_null: false, tag: "fuzz", incremental: true, diverged: true };
            mon.node(&n, rep, &mut rng);
            return;
        }
        prev = Some((b, p, m));
        b = nb;
        p = np;
    }
}
