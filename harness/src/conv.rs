//! Conversions between the library's public API and the reference model (probe layer).
use crate::refchess::*;
use chess::{Board, BoardBuilder, CastleRights, ChessMove, Color, File, MoveGen, Piece, Square};
use std::convert::TryFrom;
use std::str::FromStr;

pub fn lib_piece(k: u8) -> Piece {
    match k {
        P => Piece::Pawn,
        N => Piece::Knight,
        B => Piece::Bishop,
        R => Piece::Rook,
        Q => Piece::Queen,
        _ => Piece::King,
    }
}
pub fn model_kind(p: Piece) -> u8 {
    match p {
        Piece::Pawn => P,
        Piece::Knight => N,
        Piece::Bishop => B,
        Piece::Rook => R,
        Piece::Queen => Q,
        Piece::King => K,
    }
}
pub fn lib_color(c: u8) -> Color {
    if c == WHITE {
        Color::White
    } else {
        Color::Black
    }
}
pub fn model_color(c: Color) -> u8 {
    match c {
        Color::White => WHITE,
        Color::Black => BLACK,
    }
}
pub fn lib_move(m: RMove) -> ChessMove {
    ChessMove::new(Square::new(m.from), Square::new(m.to), if m.promo == 0 { None } else { Some(lib_piece(m.promo)) })
}
/// None if the move carries a promotion piece outside {N,B,R,Q}
pub fn model_move(m: ChessMove) -> RMove {
    RMove {
        from: m.get_source().to_int(),
        to: m.get_dest().to_int(),
        promo: match m.get_promotion() {
            None => 0,
            Some(p) => model_kind(p),
        },
    }
}
pub fn lib_rights(bits: u8) -> CastleRights {
    match bits & 3 {
        0 => CastleRights::NoRights,
        1 => CastleRights::KingSide,
        2 => CastleRights::QueenSide,
        _ => CastleRights::Both,
    }
}
pub fn rights_bits(c: CastleRights) -> u8 {
    match c {
        CastleRights::NoRights => 0,
        CastleRights::KingSide => 1,
        CastleRights::QueenSide => 2,
        CastleRights::Both => 3,
    }
}

/// Read a library board back through its per-square public API into a model position.
/// The model's e.p. field is set from the library's recorded state (pawn square -> passed-over square).
pub fn read_board(b: &Board) -> RPos {
    let mut p = RPos::empty();
    for s in 0..64u8 {
        let sq = Square::new(s);
        if let Some(pi) = b.piece_on(sq) {
            let c = match b.color_on(sq) {
                Some(c) => model_color(c),
                None => WHITE, // inconsistency is reported by the occupancy monitor, not here
            };
            p.sq[s as usize] = pc(model_kind(pi), c);
        }
    }
    p.stm = model_color(b.side_to_move());
    p.castle = rights_bits(b.castle_rights(Color::White)) | (rights_bits(b.castle_rights(Color::Black)) << 2);
    p.ep = b.en_passant().map(|s| {
        let i = s.to_int();
        // the pawn that just moved belongs to the side NOT to move
        if p.stm == WHITE {
            i.wrapping_add(8) & 63
        } else {
            i.wrapping_sub(8) & 63
        }
    });
    p
}

/// placement/side/rights equality, ignoring e.p.
pub fn same_core(a: &RPos, b: &RPos) -> bool {
    a.sq[..] == b.sq[..] && a.stm == b.stm && a.castle == b.castle
}

pub fn board_from_model_fen(p: &RPos) -> Result<Board, String> {
    Board::from_str(&p.fen()).map_err(|e| format!("{:?}", e))
}

pub fn builder_from_model(p: &RPos) -> BoardBuilder {
    let mut bb = BoardBuilder::new();
    for s in 0..64u8 {
        let x = p.sq[s as usize];
        if x != 0 {
            bb.piece(Square::new(s), lib_piece(kind(x)), lib_color(color(x)));
        }
    }
    bb.side_to_move(lib_color(p.stm));
    bb.castle_rights(Color::White, lib_rights(p.castle & 3));
    bb.castle_rights(Color::Black, lib_rights(p.castle >> 2));
    bb.en_passant(p.ep.map(|e| File::from_index((e & 7) as usize)));
    bb
}

pub fn board_from_model_builder(p: &RPos) -> Result<Board, String> {
    Board::try_from(&builder_from_model(p)).map_err(|e| format!("{:?}", e))
}

pub fn lib_moves(b: &Board) -> Vec<ChessMove> {
    MoveGen::new_legal(b).collect()
}

pub fn lib_ep_file(b: &Board) -> Option<u8> {
    b.en_passant().map(|s| s.to_int() & 7)
}

pub fn fingerprint(b: &Board) -> u128 {
    read_board(b).fingerprint(lib_ep_file(b))
}

/// A compact description of every public observable of a board (for twin comparisons and reports).
#[derive(PartialEq, Eq, Debug, Clone)]
pub struct Obs {
    pub pos: RPos,
    pub ep_raw: Option<u8>,
    pub checkers: u64,
    pub pinned: u64,
    pub combined: u64,
    pub white: u64,
    pub black: u64,
    pub pieces: [u64; 6],
    pub hash: u64,
    pub ksq: [u8; 2],
}

pub fn observe(b: &Board) -> Obs {
    Obs {
        pos: read_board(b),
        ep_raw: b.en_passant().map(|s| s.to_int()),
        checkers: b.checkers().0,
        pinned: b.pinned().0,
        combined: b.combined().0,
        white: b.color_combined(Color::White).0,
        black: b.color_combined(Color::Black).0,
        pieces: [
            b.pieces(Piece::Pawn).0,
            b.pieces(Piece::Knight).0,
            b.pieces(Piece::Bishop).0,
            b.pieces(Piece::Rook).0,
            b.pieces(Piece::Queen).0,
            b.pieces(Piece::King).0,
        ],
        hash: b.get_hash(),
        ksq: [b.king_square(Color::White).to_int(), b.king_square(Color::Black).to_int()],
    }
}

pub fn set_to_string(b: u64) -> String {
    let mut v = vec![];
    for s in 0..64u8 {
        if b >> s & 1 == 1 {
            v.push(sq_name(s));
        }
    }
    format!("{{{}}}", v.join(","))
}

/// The same builder state as `builder_from_model`, reached through the setters in a random order,
/// with redundant intermediate calls (a wrong side to move / right / e.p. file set first, then overwritten).
pub fn builder_from_model_shuffled(p: &RPos, rng: &mut crate::rng::Rng) -> BoardBuilder {
    let mut bb = BoardBuilder::new();
    let mut steps: Vec<u8> = vec![0, 1, 2, 3, 4];
    rng.shuffle(&mut steps);
    // optional decoy calls first
    if rng.chance(1, 2) {
        bb.side_to_move(lib_color(p.stm ^ 1));
    }
    if rng.chance(1, 3) {
        bb.en_passant(Some(File::from_index(rng.below(8))));
    }
    if rng.chance(1, 3) {
        bb.castle_rights(Color::White, lib_rights(rng.below(4) as u8));
    }
    for st in steps {
        match st {
            0 => {
                let mut sqs: Vec<u8> = (0..64).collect();
                rng.shuffle(&mut sqs);
                for s in sqs {
                    let x = p.sq[s as usize];
                    if x != 0 {
                        bb.piece(Square::new(s), lib_piece(kind(x)), lib_color(color(x)));
                    } else if rng.chance(1, 8) {
                        // put something there and clear it again
                        bb.piece(Square::new(s), Piece::Queen, Color::Black);
                        bb.clear_square(Square::new(s));
                    }
                }
            }
            1 => {
                bb.side_to_move(lib_color(p.stm));
            }
            2 => {
                bb.castle_rights(Color::White, lib_rights(p.castle & 3));
            }
            3 => {
                bb.castle_rights(Color::Black, lib_rights(p.castle >> 2));
            }
            _ => {
                bb.en_passant(p.ep.map(|e| File::from_index((e & 7) as usize)));
            }
        }
    }
    bb
}

/// The same builder *content* reached along a different construction path: started from `new()`, `default()`,
/// a builder made from some unrelated `Board` (by reference or by value), a parsed FEN or `setup(..)`, and then
/// edited square by square with a random mix of `piece` / `clear_square` / `IndexMut`, the other fields set
/// through their setters in random order.  A conversion that trusts where a builder came from (instead of what it
/// holds) answers differently for the two.
pub fn repath_builder(src: &BoardBuilder, rng: &mut crate::rng::Rng) -> BoardBuilder {
    use std::str::FromStr;
    let other_fens = [
        "rnbqkbnr/pppppppp/8/8/8/8/PPPPPPPP/RNBQKBNR w KQkq - 0 1",
        "r3k2r/p1ppqpb1/bn2pnp1/3PN3/1p2P3/2N2Q1p/PPPBBPPP/R3K2R w KQkq - 0 1",
        "8/2p5/3p4/KP5r/1R3p1k/8/4P1P1/8 w - - 0 1",
        "rnbqkbnr/ppp1pppp/8/8/3pP3/8/PPPP1PPP/RNBQKBNR b KQkq e3 0 1",
        "4k3/8/8/8/8/8/8/4K3 b - - 0 1",
    ];
    let fen = *rng.pick(&other_fens);
    let mut bb = match rng.below(6) {
        0 => BoardBuilder::new(),
        1 => BoardBuilder::default(),
        2 => BoardBuilder::from(&Board::from_str(fen).expect("HARNESS: corpus fen")),
        3 => BoardBuilder::from(Board::from_str(fen).expect("HARNESS: corpus fen")),
        4 => BoardBuilder::from_str(fen).expect("HARNESS: corpus fen"),
        _ => BoardBuilder::setup(&[(Square::new(rng.below(64) as u8), Piece::Queen, Color::Black), (Square::new(rng.below(64) as u8), Piece::King, Color::White)], Color::Black, chess::CastleRights::Both, chess::CastleRights::KingSide, Some(File::from_index(rng.below(8)))),
    };
    let mut steps: Vec<u8> = vec![0, 1, 2, 3];
    rng.shuffle(&mut steps);
    for st in steps {
        match st {
            0 => {
                let mut sqs: Vec<u8> = (0..64).collect();
                rng.shuffle(&mut sqs);
                for s in sqs {
                    let sq = Square::new(s);
                    match src[sq] {
                        Some((pc, c)) => {
                            if rng.chance(1, 2) {
                                bb[sq] = Some((pc, c));
                            } else {
                                bb.piece(sq, pc, c);
                            }
                        }
                        None => {
                            if rng.chance(1, 2) {
                                bb[sq] = None;
                            } else {
                                bb.clear_square(sq);
                            }
                        }
                    }
                }
            }
            1 => {
                bb.side_to_move(src.get_side_to_move());
            }
            2 => {
                bb.castle_rights(Color::White, src.get_castle_rights(Color::White));
                bb.castle_rights(Color::Black, src.get_castle_rights(Color::Black));
            }
            _ => {
                bb.en_passant(src.get_en_passant().map(|s| s.get_file()));
            }
        }
    }
    bb
}
