#!/usr/bin/env python3
"""Developer tool: rebuild harness/play_corpus.bin.

Runs the coverage-guided `play` fuzz target (libFuzzer + ASan, cfg(chess_verif)) against the CURRENT
/repo for the given monitors, merges the kept inputs (libFuzzer -merge=1: a minimal set with the same
coverage), and stores them length-prefixed (one length byte + bytes; inputs longer than 255 bytes are
dropped).  The quick tier of every walk property replays the stored inputs natively (stream
`fuzz-corpus`).  Only to be run on the unchanged tree: an input kept from a run against broken code
says nothing about the real library.

  tools/regen_play_corpus.py [seconds-per-monitor=300] [monitors=C01,C02,C03,C14]
"""
import os, shutil, subprocess, sys

ROOT = os.path.dirname(os.path.dirname(os.path.abspath(__file__)))
H = os.path.join(ROOT, "harness")
secs = int(sys.argv[1]) if len(sys.argv) > 1 else 300
mons = (sys.argv[2] if len(sys.argv) > 2 else "C01,C02,C03,C14").split(",")
env = dict(os.environ, RUSTFLAGS="--cfg chess_verif", CARGO_NET_OFFLINE="true")
assert subprocess.run("git -C /repo status --porcelain", shell=True, stdout=subprocess.PIPE, text=True).stdout.strip() == "", "/repo not clean"
corp = os.path.join(H, "fuzz", "corpus", "play")
allc = os.path.join(H, "fuzz", "corpus", "play_all")
shutil.rmtree(allc, ignore_errors=True)
os.makedirs(allc)
subprocess.run(["cargo", "+nightly", "fuzz", "build", "play"], cwd=H, env=env, check=True)
for m in mons:
    shutil.rmtree(corp, ignore_errors=True)
    e = dict(env, VERIF_FUZZ_PROP=m)
    p = subprocess.run(["cargo", "+nightly", "fuzz", "run", "play", "--", "-max_total_time=%d" % secs, "-timeout=10", "-fork=16", "-ignore_crashes=0", "-rss_limit_mb=4096", "-max_len=96"], cwd=H, env=e, stdout=subprocess.PIPE, stderr=subprocess.STDOUT, text=True)
    print(m, "rc", p.returncode, p.stdout.strip().splitlines()[-1][:200])
    assert p.returncode == 0, "the campaign reported a crash on the unchanged tree: " + p.stdout[-2000:]
    for f in os.listdir(corp):
        shutil.copy(os.path.join(corp, f), os.path.join(allc, m + "-" + f))
# minimise: keep a subset with the same coverage
merged = os.path.join(H, "fuzz", "corpus", "play_merged")
shutil.rmtree(merged, ignore_errors=True)
os.makedirs(merged)
e = dict(env, VERIF_FUZZ_PROP="C01")
p = subprocess.run(["cargo", "+nightly", "fuzz", "run", "play", merged, allc, "--", "-merge=1", "-timeout=10"], cwd=H, env=e, stdout=subprocess.PIPE, stderr=subprocess.STDOUT, text=True)
print("merge rc", p.returncode, p.stdout.strip().splitlines()[-1][:200])
out = bytearray()
n = 0
for f in sorted(os.listdir(merged)):
    d = open(os.path.join(merged, f), "rb").read()
    if 0 < len(d) <= 255:
        out.append(len(d))
        out += d
        n += 1
open(os.path.join(H, "play_corpus.bin"), "wb").write(out)
print("stored", n, "inputs,", len(out), "bytes; all kept inputs before merging:", len(os.listdir(allc)))
for d in (corp, allc, merged):
    shutil.rmtree(d, ignore_errors=True)
