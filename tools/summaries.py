#!/usr/bin/env python3
"""Developer tool: regenerate seeded/SUMMARY.md and mutants/SUMMARY.md from the recorded results."""
import json, os, glob
ROOT = os.path.dirname(os.path.dirname(os.path.abspath(__file__)))
rows = []
for d in sorted(glob.glob(os.path.join(ROOT, "seeded", "C*"))):
    m = json.load(open(os.path.join(d, "meta.json")))
    first = m["needs_to_manifest"].strip().splitlines()
    title = next((l.strip("# ").strip() for l in first if l.strip()), "")[:110]
    cr = m["check_result"]
    later = m.get("on_repo", {})
    verdict = "caught" if cr.get("caught") else ("missed cold, caught after strengthening" if later.get("caught") else ("outside the property's domain (see meta.json)" if m.get("verdict_note") else "MISSED cold"))
    rows.append("| %s | %s | %s | %s | %s |" % (m["id"], m["property"], title.replace("|", "/"), verdict, ", ".join(s.replace("|", "/") for s in cr.get("signatures", [])[:3])))
with open(os.path.join(ROOT, "seeded", "SUMMARY.md"), "w") as f:
    f.write("# Seeded changes (written by independent sub-agents from the property text only)\n\n")
    f.write("Each directory holds `patch.diff`, the sub-agent's demonstration `demo.rs` and `meta.json` (what the change needs in order to manifest, how it was confirmed, what the check reported).\n\n")
    f.write("| id | property | change (first line of the author's notes) | quick check (cold = before anything was changed in response) | signatures reported cold |\n|---|---|---|---|---|\n")
    f.write("\n".join(rows) + "\n")
print(len(rows), "seeded rows")
# mutants: last result per id
res = {}
p = os.path.join(ROOT, "mutants", "results.jsonl")
if os.path.exists(p):
    for l in open(p):
        try:
            r = json.loads(l)
        except Exception:
            continue
        res[r["id"]] = r
with open(os.path.join(ROOT, "mutants", "SUMMARY.md"), "w") as f:
    f.write("# Hand-written mutants (mutants/mutants.py), last recorded result per mutant\n\n")
    f.write("`killed-by-suite`: the repository's own 36 tests fail, so the mutant is not of the kind the brief asks about. `MISSED` entries are explained in DESIGN.md section 11.5.\n\n")
    f.write("| mutant | property | result | first signature |\n|---|---|---|---|\n")
    for k in sorted(res):
        r = res[k]
        sig = (r.get("signatures") or [""])[0].split("  ")[0].replace("|", "/")
        f.write("| %s | %s | %s | %s |\n" % (k, r["prop"], r["status"], sig))
    c = {}
    for r in res.values():
        c[r["status"]] = c.get(r["status"], 0) + 1
    f.write("\nTotals: %s\n" % c)
print(len(res), "mutant rows")
