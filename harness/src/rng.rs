//! SplitMix64 stream; every case derives its own stream from (seed, property, shard, case).
#[derive(Clone)]
pub struct Rng {
    s: u64,
    /// coverage-guided runs: decisions are read from the fuzzer's bytes (two per draw) while they last, so
    /// that a mutated byte changes exactly one decision; afterwards the SplitMix stream continues
    feed: Option<(std::rc::Rc<Vec<u8>>, usize)>,
}

impl Rng {
    pub fn new(seed: u64) -> Rng {
        Rng { s: seed, feed: None }
    }
    pub fn with_feed(seed: u64, bytes: &[u8]) -> Rng {
        Rng { s: seed, feed: Some((std::rc::Rc::new(bytes.to_vec()), 0)) }
    }
    pub fn feed_left(&self) -> usize {
        match &self.feed {
            Some((b, i)) => b.len().saturating_sub(*i),
            None => 0,
        }
    }
    pub fn derive(seed: u64, prop: &str, stream: u64, case: u64) -> Rng {
        let mut h = seed ^ 0x6a09e667f3bcc908;
        for b in prop.bytes() {
            h = (h ^ b as u64).wrapping_mul(0x100000001b3);
        }
        let mut r = Rng::new(h);
        let a = r.next();
        let mut r = Rng::new(a ^ stream.wrapping_mul(0x9E3779B97F4A7C15));
        let b = r.next();
        let mut r = Rng::new(b ^ case.wrapping_mul(0xD6E8FEB86659FD93));
        r.next();
        r
    }
    #[inline]
    pub fn next(&mut self) -> u64 {
        if let Some((b, i)) = &mut self.feed {
            if *i + 1 < b.len() {
                let v = b[*i] as u64 | (b[*i + 1] as u64) << 8;
                *i += 2;
                return v;
            }
        }
        self.s = self.s.wrapping_add(0x9E3779B97F4A7C15);
        let mut z = self.s;
        z = (z ^ (z >> 30)).wrapping_mul(0xBF58476D1CE4E5B9);
        z = (z ^ (z >> 27)).wrapping_mul(0x94D049BB133111EB);
        z ^ (z >> 31)
    }
    /// uniform in 0..k (k > 0)
    #[inline]
    pub fn below(&mut self, k: usize) -> usize {
        (self.next() % k as u64) as usize
    }
    #[inline]
    pub fn range(&mut self, lo: usize, hi_incl: usize) -> usize {
        lo + self.below(hi_incl - lo + 1)
    }
    /// true with probability num/den
    #[inline]
    pub fn chance(&mut self, num: u64, den: u64) -> bool {
        self.next() % den < num
    }
    pub fn pick<'a, T>(&mut self, v: &'a [T]) -> &'a T {
        &v[self.below(v.len())]
    }
    pub fn pick_str<'a>(&mut self, v: &[&'a str]) -> &'a str {
        v[self.below(v.len())]
    }
    pub fn shuffle<T>(&mut self, v: &mut [T]) {
        for i in (1..v.len()).rev() {
            let j = self.below(i + 1);
            v.swap(i, j);
        }
    }
}
