//! Enumeration monitors: C13 (UCI text), C15 (slider lookups), C16 (geometry), C19 (CacheTable),
//! C20 (BitBoard).  Finite domains are executed completely under the monitor.
use crate::refchess::{fr, mk, sq_name, DIAG, KG, KN, ORTH};
use crate::report::*;
use crate::rng::Rng;
use crate::walk::*;
use chess::*;
use std::panic::{catch_unwind, AssertUnwindSafe};
use std::str::FromStr;

fn set_str(b: u64) -> String {
    crate::conv::set_to_string(b)
}

// ================================================================================================ C15

fn walk_rays(sq: u8, occ: u64, dirs: &[(i8, i8); 4]) -> u64 {
    let (f, r) = fr(sq);
    let mut o = 0u64;
    for d in dirs.iter() {
        let (mut cf, mut cr) = (f + d.0, r + d.1);
        while let Some(t) = mk(cf, cr) {
            o |= 1u64 << t;
            if occ >> t & 1 == 1 {
                break;
            }
            cf += d.0;
            cr += d.1;
        }
    }
    o
}

fn check_slider(sq: u8, occ: u64, rep: &mut Report) {
    let s = Square::new(sq);
    let bb = BitBoard(occ);
    let want_r = walk_rays(sq, occ, &ORTH);
    let want_b = walk_rays(sq, occ, &DIAG);
    rep.evaluations += 2;
    let r = get_rook_moves(s, bb).0;
    if r != want_r {
        rep.violation("C15/magic/rook", format!("sq={} occ={:016x} got {} want {}", sq_name(sq), occ, set_str(r), set_str(want_r)));
    }
    let b = get_bishop_moves(s, bb).0;
    if b != want_b {
        rep.violation("C15/magic/bishop", format!("sq={} occ={:016x} got {} want {}", sq_name(sq), occ, set_str(b), set_str(want_b)));
    }
    #[cfg(target_feature = "bmi2")]
    {
        rep.evaluations += 2;
        rep.add("ev_bmi_lookups", 2);
        let r2 = get_rook_moves_bmi(s, bb).0;
        if r2 != want_r {
            rep.violation("C15/bmi2/rook", format!("sq={} occ={:016x} got {} want {}", sq_name(sq), occ, set_str(r2), set_str(want_r)));
        }
        if r2 != r {
            rep.violation("C15/bmi2-vs-magic/rook", format!("sq={} occ={:016x}", sq_name(sq), occ));
        }
        let b2 = get_bishop_moves_bmi(s, bb).0;
        if b2 != want_b {
            rep.violation("C15/bmi2/bishop", format!("sq={} occ={:016x} got {} want {}", sq_name(sq), occ, set_str(b2), set_str(want_b)));
        }
        if b2 != b {
            rep.violation("C15/bmi2-vs-magic/bishop", format!("sq={} occ={:016x}", sq_name(sq), occ));
        }
    }
}

pub fn run_c15(ctx: &Ctx, rep: &mut Report) {
    rep.notes.push(format!("bmi2_configuration={}", cfg!(target_feature = "bmi2")));
    if cfg!(target_feature = "bmi2") {
        rep.count("bmi2_build");
    }
    let miri = ctx.variant == Variant::Miri;
    // one case per square; shards split the squares
    ctx.cases(rep, "square", (64 + ctx.nshards as u64 - 1) / ctx.nshards as u64, |gid, rng, rep| {
        if gid >= 64 {
            return;
        }
        let sq = gid as u8;
        let empty_r = walk_rays(sq, 0, &ORTH);
        let empty_b = walk_rays(sq, 0, &DIAG);
        // the exported ray tables themselves
        if get_rook_rays(Square::new(sq)).0 != empty_r || get_bishop_rays(Square::new(sq)).0 != empty_b {
            rep.violation("C15/rays", format!("sq={}", sq_name(sq)));
        }
        rep.count("ev_squares");
        for (mask, which) in [(empty_r, "rook"), (empty_b, "bishop")].iter() {
            // every subset of the rays (carry-rippler), or a sample of 64 under Miri
            let mut sub = 0u64;
            let mut n = 0u64;
            loop {
                let take = if miri { n < 2 || rng.chance(64, 1u64 << mask.count_ones().min(20)) } else { true };
                if take {
                    rep.count(&format!("ev_subsets_{}", which));
                    rep.seen(hash_bytes(&[sq, 0]) ^ sub.wrapping_mul(0x9E3779B97F4A7C15));
                    check_slider(sq, sub, rep);
                    check_slider(sq, sub | 1u64 << sq, rep); // own square set
                    if !miri {
                        let other = !(empty_r | empty_b | 1u64 << sq);
                        for _ in 0..3 {
                            let noise = rng.next() & rng.next() & other;
                            // noise on irrelevant squares: for the rook lookup the bishop rays are irrelevant and vice versa
                            let irrelevant = if *which == "rook" { noise | (rng.next() & empty_b) } else { noise | (rng.next() & empty_r) };
                            let occ = sub | irrelevant;
                            let s = Square::new(sq);
                            rep.evaluations += 1;
                            if *which == "rook" {
                                let r = get_rook_moves(s, BitBoard(occ)).0;
                                let w = walk_rays(sq, occ, &ORTH);
                                if r != w {
                                    rep.violation("C15/magic/rook", format!("sq={} occ={:016x} got {} want {}", sq_name(sq), occ, set_str(r), set_str(w)));
                                }
                                #[cfg(target_feature = "bmi2")]
                                {
                                    if get_rook_moves_bmi(s, BitBoard(occ)).0 != w {
                                        rep.violation("C15/bmi2/rook", format!("sq={} occ={:016x}", sq_name(sq), occ));
                                    }
                                }
                            } else {
                                let r = get_bishop_moves(s, BitBoard(occ)).0;
                                let w = walk_rays(sq, occ, &DIAG);
                                if r != w {
                                    rep.violation("C15/magic/bishop", format!("sq={} occ={:016x} got {} want {}", sq_name(sq), occ, set_str(r), set_str(w)));
                                }
                                #[cfg(target_feature = "bmi2")]
                                {
                                    if get_bishop_moves_bmi(s, BitBoard(occ)).0 != w {
                                        rep.violation("C15/bmi2/bishop", format!("sq={} occ={:016x}", sq_name(sq), occ));
                                    }
                                }
                            }
                        }
                    }
                }
                n += 1;
                sub = sub.wrapping_sub(*mask) & *mask;
                if sub == 0 {
                    break;
                }
            }
            if !miri && n != 1u64 << mask.count_ones() {
                rep.violation("C15/harness", format!("enumeration incomplete {}", n));
            }
        }
        if sq % 9 == 0 {
            rep.sample(format!("{}: all {} rook-ray and {} bishop-ray occupancies (x own-square, x3 noise)", sq_name(sq), 1u64 << empty_r.count_ones(), 1u64 << empty_b.count_ones()));
        }
        // a few fully random occupancies
        let nr = if miri { 4 } else { 2000 };
        for _ in 0..nr {
            let occ = match rng.below(3) {
                0 => rng.next(),
                1 => rng.next() & rng.next(),
                _ => rng.next() | rng.next(),
            };
            rep.count("ev_random_occupancies");
            check_slider(sq, occ, rep);
        }
    });
    // call-history independence: a lookup must not depend on the lookups made before it (a memo, a
    // "last answer" cell, scratch state).  Each case primes all lookup functions with (s1, occ1) and then
    // asks (s2, occ2) for every s2, with occ2 derived from occ1 the way consecutive queries of a move
    // generator or a search are: the same occupancy, the occupancy after a quiet move or a capture
    // s1->s2, single-square changes, and small integer perturbations of the occupancy word.
    let n = ctx.budget(200, 2000, 1, 40);
    ctx.cases(rep, "history", n, |_gid, rng, rep| {
        let s1 = rng.below(64) as u8;
        let occ1 = match rng.below(4) {
            0 => rng.next() & rng.next() & rng.next(),
            1 => rng.next() & rng.next(),
            2 => rng.next(),
            _ => walk_rays(s1, 0, &ORTH) & rng.next() | walk_rays(s1, 0, &DIAG) & rng.next(),
        } | 1u64 << s1;
        let step = if miri { 13 } else { 1 };
        let mut s2 = if miri { rng.below(13) as u8 } else { 0 };
        while s2 < 64 {
            let deltas = [
                0u64,
                1u64 << s1,                 // capture s1 -> s2 (s2 stays occupied)
                1u64 << s1 | 1u64 << s2,    // quiet move s1 -> s2
                1u64 << s2,
                (s1 ^ s2) as u64,
                s2 as u64,
                1u64 << rng.below(64),
                rng.below(64) as u64,
                rng.next() & rng.next() & rng.next() & rng.next(),
            ];
            for d in deltas.iter() {
                check_slider(s1, occ1, rep);
                check_slider(s2, occ1 ^ d, rep);
                rep.count("ev_history_pairs");
            }
            s2 += step;
        }
        // the same square asked again after one man has moved elsewhere (every relocation a -> b and every
        // removal; sampled when the board is crowded): what a search does between two lookups
        if !miri {
            let men: Vec<u8> = (0..64u8).filter(|t| occ1 >> t & 1 == 1 && *t != s1).collect();
            let all = men.len() <= 24;
            for a in men.iter() {
                check_slider(s1, occ1, rep);
                check_slider(s1, occ1 ^ 1u64 << a, rep);
                rep.count("ev_history_pairs");
                for b in 0..64u8 {
                    if occ1 >> b & 1 == 1 || !(all || rng.chance(1, 4)) {
                        continue;
                    }
                    check_slider(s1, occ1, rep);
                    check_slider(s1, occ1 ^ 1u64 << a ^ 1u64 << b, rep);
                    rep.count("ev_history_pairs");
                    rep.count("ev_history_relocations");
                }
            }
        }
        rep.seen(hash_bytes(&[s1, 1]) ^ occ1.wrapping_mul(0x9E3779B97F4A7C15));
    });
    // the same with few men on the board, systematically: every priming square, every single-man
    // occupancy and samples of two- and three-man occupancies; asked squares = all (single man) or the
    // index neighbours of the priming square (a memo keyed by square index and an extract of the
    // occupancy aliases adjacent indices first)
    ctx.cases(rep, "history-sparse", (64 + ctx.nshards as u64 - 1) / ctx.nshards as u64, |gid, rng, rep| {
        if gid >= 64 || (miri && gid % 21 != 0) {
            return;
        }
        let s1 = gid as u8;
        let own = 1u64 << s1;
        let neigh: Vec<u8> = [1i16, -1, 8, -8, 7, -7, 9, -9].iter().map(|d| ((s1 as i16 + d + 64) % 64) as u8).collect();
        let singles = if miri { 4 } else { 64 };
        for t in 0..singles {
            let t = if miri { rng.below(64) as u8 } else { t as u8 };
            for with_own in [false, true].iter() {
                let occ1 = 1u64 << t | if *with_own { own } else { 0 };
                let step = if miri { 17 } else { 1 };
                let mut s2 = 0u8;
                while s2 < 64 {
                    check_slider(s1, occ1, rep);
                    check_slider(s2, occ1, rep);
                    check_slider(s1, occ1, rep);
                    check_slider(s2, (occ1 & !own) | 1u64 << s2, rep);
                    rep.add("ev_history_pairs", 2);
                    s2 += step;
                }
            }
        }
        let samples = if miri { 3 } else { 400 };
        for i in 0..samples {
            let mut occ1 = 1u64 << rng.below(64) | 1u64 << rng.below(64);
            if i % 2 == 1 {
                occ1 |= 1u64 << rng.below(64);
            }
            if rng.chance(1, 2) {
                occ1 |= own;
            }
            // one of the men on the rays of the priming square, so that the answer is not the empty-board one
            if rng.chance(2, 3) {
                let rays = walk_rays(s1, 0, &ORTH) | walk_rays(s1, 0, &DIAG);
                let k = rng.below(rays.count_ones() as usize);
                let mut r = rays;
                for _ in 0..k {
                    r &= r - 1;
                }
                occ1 |= r & r.wrapping_neg();
            }
            for s2 in neigh.iter() {
                for d in [0u64, own, own | 1u64 << s2].iter() {
                    check_slider(s1, occ1, rep);
                    check_slider(*s2, occ1 ^ d, rep);
                    rep.count("ev_history_pairs");
                }
            }
        }
        rep.count("ev_history_sparse_squares");
    });
}

// ================================================================================================ C16

fn aligned(a: u8, b: u8) -> Option<(i8, i8)> {
    let (fa, ra) = fr(a);
    let (fb, rb) = fr(b);
    let (dx, dy) = (fb - fa, rb - ra);
    if a == b {
        return None;
    }
    if dx == 0 || dy == 0 || dx.abs() == dy.abs() {
        Some((dx.signum(), dy.signum()))
    } else {
        None
    }
}

fn between_def(a: u8, b: u8) -> u64 {
    match aligned(a, b) {
        None => 0,
        Some(d) => {
            let (mut f, mut r) = fr(a);
            let mut o = 0;
            loop {
                f += d.0;
                r += d.1;
                let t = mk(f, r).unwrap();
                if t == b {
                    break;
                }
                o |= 1u64 << t;
            }
            o
        }
    }
}

fn line_def(a: u8, b: u8) -> u64 {
    match aligned(a, b) {
        None => 0,
        Some(d) => {
            let mut o = 1u64 << a;
            for dd in [d, (-d.0, -d.1)].iter() {
                let (mut f, mut r) = fr(a);
                loop {
                    f += dd.0;
                    r += dd.1;
                    match mk(f, r) {
                        Some(t) => o |= 1u64 << t,
                        None => break,
                    }
                }
            }
            o
        }
    }
}

fn lc(c: u8) -> Color {
    if c == 0 {
        Color::White
    } else {
        Color::Black
    }
}

pub fn run_c16(ctx: &Ctx, rep: &mut Report) {
    let miri = ctx.variant == Variant::Miri;
    // single case per shard-slice of the first square; the enumeration is small
    ctx.cases(rep, "square", (64 + ctx.nshards as u64 - 1) / ctx.nshards as u64, |gid, rng, rep| {
        if gid >= 64 {
            return;
        }
        let a = gid as u8;
        let sa = Square::new(a);
        let (f, r) = fr(a);
        rep.count("ev_squares");
        // pairs
        for b in 0..64u8 {
            let sb = Square::new(b);
            rep.evaluations += 2;
            rep.seen(hash_bytes(&[a, b]));
            let bt = between(sa, sb).0;
            if bt != between_def(a, b) {
                rep.violation("C16/between", format!("between({},{}) = {} want {}", sq_name(a), sq_name(b), set_str(bt), set_str(between_def(a, b))));
            }
            if a != b && aligned(a, b).is_some() {
                // ("line" is specified for two aligned squares only)
                let l = line(sa, sb).0;
                if l != line_def(a, b) {
                    rep.violation("C16/line", format!("line({},{}) = {} want {}", sq_name(a), sq_name(b), set_str(l), set_str(line_def(a, b))));
                }
            }
            rep.count("ev_pairs");
        }
        // king / knight
        let mut k = 0u64;
        for d in KG.iter() {
            if let Some(t) = mk(f + d.0, r + d.1) {
                k |= 1u64 << t;
            }
        }
        let mut n = 0u64;
        for d in KN.iter() {
            if let Some(t) = mk(f + d.0, r + d.1) {
                n |= 1u64 << t;
            }
        }
        rep.evaluations += 2;
        if get_king_moves(sa).0 != k {
            rep.violation("C16/king", format!("{} got {} want {}", sq_name(a), set_str(get_king_moves(sa).0), set_str(k)));
        }
        if get_knight_moves(sa).0 != n {
            rep.violation("C16/knight", format!("{} got {} want {}", sq_name(a), set_str(get_knight_moves(sa).0), set_str(n)));
        }
        // pawns: every subset of the <= 4 relevant squares x noise
        for c in 0..2u8 {
            let dr: i8 = if c == 0 { 1 } else { -1 };
            let start: i8 = if c == 0 { 1 } else { 6 };
            let mut rel: Vec<u8> = vec![];
            for t in [mk(f - 1, r + dr), mk(f + 1, r + dr), mk(f, r + dr), mk(f, r + 2 * dr)].iter() {
                if let Some(t) = t {
                    rel.push(*t);
                }
            }
            let relmask: u64 = rel.iter().fold(0, |m, t| m | 1u64 << t);
            for sub in 0..(1u32 << rel.len()) {
                let mut occ = 0u64;
                for (i, t) in rel.iter().enumerate() {
                    if sub >> i & 1 == 1 {
                        occ |= 1u64 << t;
                    }
                }
                let noises = if miri { 1 } else { 4 };
                for k in 0..noises {
                    let noise = if k == 0 { 0 } else { rng.next() & !relmask };
                    let o = occ | noise;
                    let mut att = 0u64;
                    for df in [-1i8, 1].iter() {
                        if let Some(t) = mk(f + df, r + dr) {
                            att |= 1u64 << t;
                        }
                    }
                    let want_att = att & o;
                    let mut want_q = 0u64;
                    if let Some(t) = mk(f, r + dr) {
                        if o >> t & 1 == 0 {
                            want_q |= 1u64 << t;
                            if r == start {
                                if let Some(t2) = mk(f, r + 2 * dr) {
                                    if o >> t2 & 1 == 0 {
                                        want_q |= 1u64 << t2;
                                    }
                                }
                            }
                        }
                    }
                    rep.evaluations += 3;
                    rep.count("ev_pawn_cases");
                    let ga = get_pawn_attacks(sa, lc(c), BitBoard(o)).0;
                    let gq = get_pawn_quiets(sa, lc(c), BitBoard(o)).0;
                    let gm = get_pawn_moves(sa, lc(c), BitBoard(o)).0;
                    if ga != want_att {
                        rep.violation("C16/pawn-attacks", format!("{} colour {} occ {:016x} got {} want {}", sq_name(a), c, o, set_str(ga), set_str(want_att)));
                    }
                    if gq != want_q {
                        rep.violation("C16/pawn-quiets", format!("{} colour {} occ {:016x} got {} want {}", sq_name(a), c, o, set_str(gq), set_str(want_q)));
                    }
                    if gm != want_att | want_q {
                        rep.violation("C16/pawn-moves", format!("{} colour {} occ {:016x} got {} want {}", sq_name(a), c, o, set_str(gm), set_str(want_att | want_q)));
                    }
                }
            }
        }
        // stepping helpers
        let chk = |name: &str, got: Option<Square>, want: Option<u8>, rep: &mut Report| {
            rep.evaluations += 1;
            if got.map(|s| s.to_int()) != want {
                rep.violation(&format!("C16/step/{}", name), format!("{} got {:?} want {:?}", sq_name(a), got, want.map(sq_name)));
            }
        };
        chk("up", sa.up(), mk(f, r + 1), rep);
        chk("down", sa.down(), mk(f, r - 1), rep);
        chk("left", sa.left(), mk(f - 1, r), rep);
        chk("right", sa.right(), mk(f + 1, r), rep);
        chk("forward-white", sa.forward(Color::White), mk(f, r + 1), rep);
        chk("forward-black", sa.forward(Color::Black), mk(f, r - 1), rep);
        chk("backward-white", sa.backward(Color::White), mk(f, r - 1), rep);
        chk("backward-black", sa.backward(Color::Black), mk(f, r + 1), rep);
        let wrap = |f: i8, r: i8| -> Option<u8> { mk((f + 8) % 8, (r + 8) % 8) };
        chk("uup", Some(sa.uup()), wrap(f, r + 1), rep);
        chk("udown", Some(sa.udown()), wrap(f, r - 1), rep);
        chk("uleft", Some(sa.uleft()), wrap(f - 1, r), rep);
        chk("uright", Some(sa.uright()), wrap(f + 1, r), rep);
        chk("uforward-white", Some(sa.uforward(Color::White)), wrap(f, r + 1), rep);
        chk("uforward-black", Some(sa.uforward(Color::Black)), wrap(f, r - 1), rep);
        chk("ubackward-white", Some(sa.ubackward(Color::White)), wrap(f, r - 1), rep);
        chk("ubackward-black", Some(sa.ubackward(Color::Black)), wrap(f, r + 1), rep);
        // coordinates
        rep.evaluations += 3;
        if sa.get_rank().to_index() as i8 != r || sa.get_file().to_index() as i8 != f {
            rep.violation("C16/square/coordinates", sq_name(a));
        }
        if Square::make_square(Rank::from_index(r as usize), File::from_index(f as usize)) != sa {
            rep.violation("C16/square/make_square", sq_name(a));
        }
        if sa.to_int() != a || sa.to_index() != a as usize || Square::new(a) != ALL_SQUARES[a as usize] {
            rep.violation("C16/square/index", sq_name(a));
        }
        // rank / file level facts are checked once (by the case for square i < 8)
        if a < 8 {
            let i = a as usize;
            let mut rk = 0u64;
            let mut fl = 0u64;
            let mut adj = 0u64;
            for s in 0..64u8 {
                let (sf, sr) = fr(s);
                if sr as usize == i {
                    rk |= 1u64 << s;
                }
                if sf as usize == i {
                    fl |= 1u64 << s;
                }
                if (sf - i as i8).abs() == 1 {
                    adj |= 1u64 << s;
                }
            }
            rep.evaluations += 3;
            if get_rank(Rank::from_index(i)).0 != rk {
                rep.violation("C16/rank-set", format!("rank {}", i + 1));
            }
            if get_file(File::from_index(i)).0 != fl {
                rep.violation("C16/file-set", format!("file {}", i));
            }
            if get_adjacent_files(File::from_index(i)).0 != adj {
                rep.violation("C16/adjacent-files", format!("file {} got {} want {}", i, set_str(get_adjacent_files(File::from_index(i)).0), set_str(adj)));
            }
            // Rank / File helpers incl. wrap, from_index masks with 7
            rep.evaluations += 6;
            let rr = Rank::from_index(i);
            let ff = File::from_index(i);
            if rr.to_index() != i || rr.up().to_index() != (i + 1) % 8 || rr.down().to_index() != (i + 7) % 8 {
                rep.violation("C16/rank-helpers", format!("rank index {}", i));
            }
            if ff.to_index() != i || ff.right().to_index() != (i + 1) % 8 || ff.left().to_index() != (i + 7) % 8 {
                rep.violation("C16/file-helpers", format!("file index {}", i));
            }
            for k in [8usize, 16, 64, 1000, usize::MAX - 7].iter() {
                if Rank::from_index(i.wrapping_add(*k)).to_index() != i || File::from_index(i.wrapping_add(*k)).to_index() != i {
                    rep.violation("C16/from_index-wrap", format!("index {}", i.wrapping_add(*k)));
                }
            }
            if ALL_RANKS[i] != rr || ALL_FILES[i] != ff {
                rep.violation("C16/all-ranks-files", format!("{}", i));
            }
        }
        if a == 0 {
            // every way of obtaining a Square yields one of the 64 (the tables are indexed by it unchecked)
            for n in 0..=255u8 {
                rep.evaluations += 1;
                let q = Square::new(n);
                if q.to_index() != (n & 63) as usize || q != ALL_SQUARES[(n & 63) as usize] {
                    rep.violation("C16/square/new-out-of-range", format!("Square::new({}) has index {}", n, q.to_index()));
                } else {
                    std::hint::black_box(get_king_moves(q).0);
                }
            }
            for ri in 0..24usize {
                for fi in 0..24usize {
                    rep.evaluations += 1;
                    let q = Square::make_square(Rank::from_index(ri), File::from_index(fi));
                    if q.to_index() != (ri % 8) * 8 + fi % 8 {
                        rep.violation("C16/square/make_square-out-of-range", format!("make_square(rank index {}, file index {}) has index {}", ri, fi, q.to_index()));
                    }
                }
            }
            for c1 in b'a'..=b'j' {
                for c2 in b'0'..=b'9' {
                    let t = format!("{}{}", c1 as char, c2 as char);
                    rep.evaluations += 1;
                    let want = if c1 <= b'h' && (b'1'..=b'8').contains(&c2) { Some(((c2 - b'1') * 8 + (c1 - b'a')) as usize) } else { None };
                    let got = Square::from_str(&t).ok().map(|q| q.to_index());
                    if got != want {
                        rep.violation("C16/square/from-text", format!("Square::from_str({:?}) gives index {:?} want {:?}", t, got, want));
                    }
                }
            }
            rep.count("ev_constructor_sweeps");
            let mut e = 0u64;
            for s in 0..64u8 {
                let (sf, sr) = fr(s);
                if sf == 0 || sf == 7 || sr == 0 || sr == 7 {
                    e |= 1u64 << s;
                }
            }
            rep.evaluations += 1;
            if EDGES.0 != e {
                rep.violation("C16/edges", format!("got {}", set_str(EDGES.0)));
            }
            rep.sample("between(a1,h8)=".to_string() + &set_str(between(Square::A1, Square::H8).0));
            rep.sample("line(b1,c2)=".to_string() + &set_str(line(Square::B1, Square::C2).0));
        }
    });
}

// ================================================================================================ C13

fn render_ok(s: &str) -> bool {
    let b = s.as_bytes();
    if b.len() != 4 && b.len() != 5 {
        return false;
    }
    let sqok = |x: &[u8]| (b'a'..=b'h').contains(&x[0]) && (b'1'..=b'8').contains(&x[1]);
    sqok(&b[0..2]) && sqok(&b[2..4]) && (b.len() == 4 || b"qrbn".contains(&b[4]))
}

pub fn c13_text(rep: &mut Report, text: &str) {
    rep.eval();
    rep.count("op_move_from_str");
    rep.seen(hash_bytes(text.as_bytes()));
    let r = catch_unwind(AssertUnwindSafe(|| ChessMove::from_str(text)));
    match r {
        Err(_) => rep.violation("C13/move-parse/panic", format!("ChessMove::from_str({:?}) panicked", text)),
        Ok(Ok(m)) => {
            rep.count("ev_move_parse_ok");
            let s = format!("{}", m);
            if !text.starts_with(&s) {
                rep.violation("C13/move-parse/not-a-prefix", format!("from_str({:?}) = Ok({}) which is not a prefix of the input", text, s));
            }
            // what parsing returns is a move between two of the 64 squares (and usable as such: the
            // lookups below index tables by it)
            for q in [m.get_source(), m.get_dest()].iter() {
                if q.to_index() >= 64 || ALL_SQUARES[q.to_index() & 63] != *q {
                    rep.violation("C13/move-parse/square-out-of-range", format!("from_str({:?}) contains square index {}", text, q.to_index()));
                } else {
                    std::hint::black_box(get_king_moves(*q).0 ^ between(*q, Square::A1).0);
                }
            }
        }
        Ok(Err(_)) => rep.count("ev_move_parse_err"),
    }
    rep.count("op_square_from_str");
    let r = catch_unwind(AssertUnwindSafe(|| Square::from_str(text)));
    match r {
        Err(_) => rep.violation("C13/square-parse/panic", format!("Square::from_str({:?}) panicked", text)),
        Ok(Ok(q)) => {
            rep.count("ev_square_parse_ok");
            let s = format!("{}", q);
            if !text.starts_with(&s) {
                rep.violation("C13/square-parse/not-a-prefix", format!("Square::from_str({:?}) = Ok({})", text, s));
            }
            if q.to_index() >= 64 || ALL_SQUARES[q.to_index() & 63] != q {
                rep.violation("C13/square-parse/out-of-range", format!("Square::from_str({:?}) = square index {}", text, q.to_index()));
            } else {
                std::hint::black_box(get_knight_moves(q).0 ^ line(q, Square::H8).0);
            }
        }
        Ok(Err(_)) => rep.count("ev_square_parse_err"),
    }
}

pub fn random_text(rng: &mut Rng, alphabet: &[&str], maxlen: usize) -> String {
    let n = rng.below(maxlen + 1);
    let mut s = String::new();
    for _ in 0..n {
        s.push_str(rng.pick_str(alphabet));
    }
    s
}

pub const WEIRD: &[&str] = &["\u{0}", "é", "ß", "\u{301}", "\u{202e}", "♞", "𝔸", "\u{7f}", " ", "\t", "\n", "１", "ａ", "\u{fffd}", "\u{10ffff}"];

pub fn run_c13(ctx: &Ctx, rep: &mut Report) {
    let miri = ctx.variant == Variant::Miri;
    // exhaustive part: 20480 moves (sharded by source square), 64 squares
    ctx.cases(rep, "enum", (64 + ctx.nshards as u64 - 1) / ctx.nshards as u64, |gid, _rng, rep| {
        if gid >= 64 {
            return;
        }
        let s = gid as u8;
        let sq = Square::new(s);
        let txt = format!("{}", sq);
        rep.evaluations += 1;
        rep.count("ev_squares_roundtrip");
        if txt != sq_name(s) {
            rep.violation("C13/square-render", format!("square {} renders {:?}", s, txt));
        }
        match Square::from_str(&txt) {
            Ok(q) if q == sq => {}
            other => rep.violation("C13/square-roundtrip", format!("{:?} -> {:?}", txt, other)),
        }
        let promos = [None, Some(Piece::Queen), Some(Piece::Rook), Some(Piece::Bishop), Some(Piece::Knight)];
        let dsts: Vec<u8> = if miri { vec![0, 7, 9, 28, 36, 56, 63, s] } else { (0..64).collect() };
        for d in dsts {
            for p in promos.iter() {
                let m = ChessMove::new(sq, Square::new(d), *p);
                let t = format!("{}", m);
                rep.evaluations += 1;
                rep.count("ev_moves_roundtrip");
                rep.seen(hash_bytes(t.as_bytes()));
                if !render_ok(&t) {
                    rep.violation("C13/move-render/format", format!("{:?} renders {:?}", m, t));
                }
                let want = format!(
                    "{}{}{}",
                    sq_name(s),
                    sq_name(d),
                    match p {
                        None => "",
                        Some(Piece::Queen) => "q",
                        Some(Piece::Rook) => "r",
                        Some(Piece::Bishop) => "b",
                        _ => "n",
                    }
                );
                if t != want {
                    rep.violation("C13/move-render/content", format!("{:?} renders {:?} want {:?}", m, t, want));
                }
                match ChessMove::from_str(&t) {
                    Ok(m2) if m2 == m => {}
                    other => rep.violation("C13/move-roundtrip", format!("{:?} -> {:?} -> {:?}", m, t, other)),
                }
                // parsing is also total on every truncation / extension of a valid rendering
                if !miri && d % 8 == 0 {
                    for cut in 0..t.len() {
                        c13_text(rep, &t[..cut]);
                    }
                    c13_text(rep, &format!("{}q", t));
                    c13_text(rep, &format!("{}é", &t[..4]));
                    c13_text(rep, &format!("{} ", t));
                }
            }
        }
        if s == 12 {
            rep.sample(format!("e2 -> all 320 moves e2xx[qrbn]? rendered and re-parsed, e.g. {}", ChessMove::new(sq, Square::new(28), None)));
        }
    });
    // call-history independence: parsing a text must not depend on what was parsed before it (a memo of the
    // last answer, a reused scratch buffer).  Each canonical rendering is parsed right after a *relative*
    // of it - the same text padded, truncated, extended, re-cased, with another promotion letter - and
    // must still give exactly its move; the relative itself is judged by the stateless checks.
    ctx.cases(rep, "history", (64 + ctx.nshards as u64 - 1) / ctx.nshards as u64, |gid, rng, rep| {
        if gid >= 64 {
            return;
        }
        let s = gid as u8;
        if miri && s % 9 != 0 {
            return;
        }
        let promos = [None, Some(Piece::Queen), Some(Piece::Rook), Some(Piece::Bishop), Some(Piece::Knight)];
        let dsts: Vec<u8> = if miri { vec![0, 28, 63] } else { (0..64).collect() };
        for d in dsts {
            for p in promos.iter() {
                let m = ChessMove::new(Square::new(s), Square::new(d), *p);
                let t = format!("{}", m);
                let mut relatives: Vec<String> = vec![
                    format!("{}\u{0}", t),
                    format!("{}\u{0}\u{0}", t),
                    format!("{}\u{0}\u{0}\u{0}", t),
                    format!("{} ", t),
                    format!("{}q", &t[..4]),
                    format!("{}n\u{0}", &t[..4]),
                    t[..4].to_string(),
                    t[..3].to_string(),
                    t.to_uppercase(),
                    format!("{}{}", &t[2..4], &t[..2]),
                    format!("{}x", t),
                ];
                relatives.push(format!("{}{}", t, rng.pick_str(WEIRD)));
                for r in relatives.iter() {
                    c13_text(rep, r);
                    rep.evaluations += 1;
                    rep.count("ev_history_pairs");
                    match ChessMove::from_str(&t) {
                        Ok(m2) if m2 == m => {}
                        other => rep.violation("C13/move-roundtrip/after-related-parse", format!("after parsing {:?}: {:?} -> {:?} -> {:?}", r, m, t, other)),
                    }
                }
                // squares too
                let sqt = &t[..2];
                for r in [format!("{}\u{0}", sqt), format!("{}1", sqt), sqt[..1].to_string(), sqt.to_uppercase()].iter() {
                    let _ = Square::from_str(r);
                    match Square::from_str(sqt) {
                        Ok(q) if q == Square::new(s) => {}
                        other => rep.violation("C13/square-roundtrip/after-related-parse", format!("after parsing {:?}: {:?} -> {:?}", r, sqt, other)),
                    }
                }
            }
        }
    });
    // adversarial text
    let n = ctx.budget(400_000, 5_000_000, 12, 20_000);
    ctx.cases(rep, "text", n / 200 + 1, |_gid, rng, rep| {
        let per = if miri { 30 } else { 200 };
        for i in 0..per {
            let text = match rng.below(8) {
                0 => random_text(rng, &["a", "b", "c", "d", "e", "f", "g", "h", "1", "2", "3", "4", "5", "6", "7", "8", "q", "r", "n", "b", "k", "p", "Q", "x"], 7),
                1 => {
                    // valid move, mutated
                    let m = ChessMove::new(Square::new(rng.below(64) as u8), Square::new(rng.below(64) as u8), *rng.pick(&[None, Some(Piece::Queen), Some(Piece::Knight)]));
                    let mut t: Vec<char> = format!("{}", m).chars().collect();
                    match rng.below(5) {
                        0 => {
                            let i = rng.below(t.len());
                            t[i] = *rng.pick(&['é', '9', '0', 'i', 'A', ' ', '\u{0}', 'ａ']);
                        }
                        1 => {
                            let i = rng.below(t.len() + 1);
                            t.insert(i, *rng.pick(&['é', 'x', '-', ' ', '♞', '1']));
                        }
                        2 => {
                            let i = rng.below(t.len());
                            t.remove(i);
                        }
                        3 => {
                            t.push(*rng.pick(&['q', 'k', 'p', 'Q', 'é', '\u{301}', '=', '+']));
                        }
                        _ => {
                            let i = rng.below(t.len());
                            let c = t[i];
                            t.insert(i, c);
                        }
                    }
                    t.into_iter().collect()
                }
                2 => {
                    // 4 ascii + non-ascii tail making byte length 5/6
                    let m = ChessMove::new(Square::new(rng.below(64) as u8), Square::new(rng.below(64) as u8), None);
                    format!("{}{}", m, rng.pick(WEIRD))
                }
                3 => random_text(rng, WEIRD, 4),
                4 => {
                    // multi-byte character straddling the slice boundaries 2 and 4
                    let pre = random_text(rng, &["a", "1", "e", "4"], 3);
                    format!("{}{}{}", pre, rng.pick(WEIRD), random_text(rng, &["a", "1", "q"], 3))
                }
                5 => {
                    let bytes: Vec<u8> = (0..rng.below(9)).map(|_| rng.next() as u8).collect();
                    String::from_utf8_lossy(&bytes).into_owned()
                }
                6 => {
                    if rng.chance(1, 2) {
                        "e2e4".repeat(rng.below(300)) + rng.pick_str(&["", "q", "é"])
                    } else {
                        // a valid rendering with one character replaced by a non-ASCII character whose
                        // low byte (or low 7 bits) equals the original: catches truncating casts
                        let m = ChessMove::new(Square::new(rng.below(64) as u8), Square::new(rng.below(64) as u8), *rng.pick(&[None, None, Some(Piece::Queen), Some(Piece::Rook)]));
                        let base = if rng.chance(1, 3) { format!("{}", Square::new(rng.below(64) as u8)) } else { format!("{}", m) };
                        let mut t: Vec<char> = base.chars().collect();
                        let i = rng.below(t.len());
                        let c = t[i] as u32;
                        let k = 1 + rng.below(255) as u32;
                        let cand = if rng.chance(3, 4) { 0x100 * k + c } else { c + 0x80 * (1 + rng.below(3) as u32) * 2 };
                        t[i] = std::char::from_u32(cand).unwrap_or('é');
                        t.into_iter().collect()
                    }
                }
                7 if rng.chance(1, 2) => {
                    // a valid move (often with promotion geometry) followed by a notation-like tail:
                    // check/mate signs, '=', upper- and lower-case piece letters in any arrangement
                    let (s, d) = if rng.chance(1, 2) {
                        let f = rng.below(8) as i8;
                        let df = rng.range(0, 2) as i8 - 1;
                        let (r0, r1) = if rng.chance(1, 2) { (6i8, 7i8) } else { (1, 0) };
                        (mk(f, r0).unwrap(), mk((f + df).max(0).min(7), r1).unwrap())
                    } else {
                        (rng.below(64) as u8, rng.below(64) as u8)
                    };
                    let tail = random_text(rng, &["+", "#", "=", "q", "r", "n", "b", "Q", "R", "N", "B", "x", "-", "e.p.", " ", "!", "?"], 4);
                    format!("{}{}{}", sq_name(s), sq_name(d), tail)
                }
                _ => format!("{}{}", sq_name(rng.below(64) as u8), random_text(rng, &["a", "h", "1", "8", "q", "é", " "], 4)),
            };
            if i == 0 {
                rep.sample(format!("text {:?}", text));
            }
            c13_text(rep, &text);
        }
    });
}

// ================================================================================================ C20

fn bits_of(x: u64) -> Vec<u8> {
    (0..64u8).filter(|s| x >> s & 1 == 1).collect()
}

fn c20_value(x: u64, rep: &mut Report) {
    rep.eval();
    rep.seen(x ^ 0x5555);
    let bb = BitBoard(x);
    let want = bits_of(x);
    let got: Vec<u8> = bb.map(|s| s.to_int()).collect();
    if got != want {
        rep.violation("C20/iteration", format!("{:016x} iterates {:?}", x, got));
    }
    if bb.popcnt() as usize != want.len() {
        rep.violation("C20/popcnt", format!("{:016x} popcnt {}", x, bb.popcnt()));
    }
    if bb.count() != want.len() {
        rep.violation("C20/count", format!("{:016x}", x));
    }
    if x != 0 && bb.to_square().to_int() != want[0] {
        rep.violation("C20/to_square", format!("{:016x} to_square {}", x, bb.to_square()));
    }
    if BitBoard::new(x) != bb || BitBoard::new(x).0 != x {
        rep.violation("C20/new", format!("{:016x}", x));
    }
    // colour reversal flips the ranks
    let mut flipped = 0u64;
    for s in want.iter() {
        flipped |= 1u64 << (s ^ 56);
    }
    if bb.reverse_colors().0 != flipped {
        rep.violation("C20/reverse_colors", format!("{:016x} -> {:016x} want {:016x}", x, bb.reverse_colors().0, flipped));
    }
    if (!bb).0 != !x || (!&bb).0 != !x {
        rep.violation("C20/not", format!("{:016x}", x));
    }
    // the same object as both borrowed operands
    if (&bb & &bb).0 != x || (&bb | &bb).0 != x || (&bb ^ &bb).0 != 0 {
        rep.violation("C20/operator/same-object-borrowed-twice", format!("{:016x}: &x&&x={:016x} &x|&x={:016x} &x^&x={:016x}", x, (&bb & &bb).0, (&bb | &bb).0, (&bb ^ &bb).0));
    }
    // the other ways of consuming the iterator must agree with plain iteration
    let n = want.len();
    let (lo, hi) = bb.size_hint();
    if lo > n || hi.map_or(false, |h| h < n) {
        rep.violation("C20/iteration/size_hint", format!("{:016x} size_hint=({}, {:?}) but {} squares", x, lo, hi, n));
    }
    if bb.last().map(|s| s.to_int()) != want.last().cloned() {
        rep.violation("C20/iteration/last", format!("{:016x}", x));
    }
    // (sampled by value to keep the quick tier short; structured values all qualify through popcnt)
    let ks: &[usize] = if x % 3 == 0 || n <= 8 || n >= 56 { &[0usize, 1, 2, 7, 63, 64, 1usize << 32, (1usize << 32) + 1, (1usize << 40) + 2, usize::MAX] } else { &[] };
    for k in ks.iter().chain([n.wrapping_sub(1), n, n + 1].iter()) {
        let w = if *k < n { Some(want[*k]) } else { None };
        let mut it = bb;
        if it.nth(*k).map(|s| s.to_int()) != w {
            rep.violation("C20/iteration/nth", format!("{:016x}.nth({}) != {:?}", x, k, w));
        }
        let sk: usize = bb.skip(*k).count();
        if sk != n.saturating_sub(*k) {
            rep.violation("C20/iteration/skip", format!("{:016x}.skip({}).count() = {} want {}", x, k, sk, n.saturating_sub(*k)));
        }
    }
    let st: Vec<u8> = bb.step_by(2).map(|s| s.to_int()).collect();
    let ws: Vec<u8> = want.iter().cloned().step_by(2).collect();
    if st != ws {
        rep.violation("C20/iteration/step_by", format!("{:016x}", x));
    }
}

fn c20_pair(a: u64, b: u64, rep: &mut Report) {
    rep.eval();
    let (x, y) = (BitBoard(a), BitBoard(b));
    // set semantics computed square by square
    let mut and = 0u64;
    let mut or = 0u64;
    let mut xor = 0u64;
    for s in 0..64 {
        let (p, q) = (a >> s & 1 == 1, b >> s & 1 == 1);
        if p && q {
            and |= 1 << s;
        }
        if p || q {
            or |= 1 << s;
        }
        if p != q {
            xor |= 1 << s;
        }
    }
    let t = |name: &str, got: BitBoard, want: u64, rep: &mut Report| {
        if got.0 != want {
            rep.violation(&format!("C20/operator/{}", name), format!("{:016x} op {:016x} = {:016x} want {:016x}", a, b, got.0, want));
        }
    };
    t("and/owned-owned", x & y, and, rep);
    t("and/ref-ref", &x & &y, and, rep);
    t("and/owned-ref", x & &y, and, rep);
    t("and/ref-owned", &x & y, and, rep);
    t("or/owned-owned", x | y, or, rep);
    t("or/ref-ref", &x | &y, or, rep);
    t("or/owned-ref", x | &y, or, rep);
    t("or/ref-owned", &x | y, or, rep);
    t("xor/owned-owned", x ^ y, xor, rep);
    t("xor/ref-ref", &x ^ &y, xor, rep);
    t("xor/owned-ref", x ^ &y, xor, rep);
    t("xor/ref-owned", &x ^ y, xor, rep);
    let mut z = x;
    z &= y;
    t("and-assign/owned", z, and, rep);
    let mut z = x;
    z &= &y;
    t("and-assign/ref", z, and, rep);
    let mut z = x;
    z |= y;
    t("or-assign/owned", z, or, rep);
    let mut z = x;
    z |= &y;
    t("or-assign/ref", z, or, rep);
    let mut z = x;
    z ^= y;
    t("xor-assign/owned", z, xor, rep);
    let mut z = x;
    z ^= &y;
    t("xor-assign/ref", z, xor, rep);
}

pub fn structured_values() -> Vec<u64> {
    let mut v = vec![0u64, !0u64];
    for s in 0..64 {
        v.push(1u64 << s);
        v.push(!(1u64 << s));
    }
    for i in 0..8 {
        v.push(0xffu64 << (8 * i));
        v.push(0x0101010101010101u64 << i);
    }
    // diagonals
    for s in 0..64u8 {
        for d in DIAG.iter() {
            let (mut f, mut r) = fr(s);
            let mut o = 1u64 << s;
            loop {
                f += d.0;
                r += d.1;
                match mk(f, r) {
                    Some(t) => o |= 1u64 << t,
                    None => break,
                }
            }
            v.push(o);
        }
    }
    v.push(0x55aa55aa55aa55aa);
    v.push(0xaa55aa55aa55aa55);
    v.sort();
    v.dedup();
    v
}

pub fn run_c20(ctx: &Ctx, rep: &mut Report) {
    let miri = ctx.variant == Variant::Miri;
    // singletons: exhaustive
    ctx.cases(rep, "singletons", 1, |_g, _rng, rep| {
        if ctx.shard != 0 {
            return;
        }
        for s in 0..64u8 {
            let sq = Square::new(s);
            let bb = BitBoard::from_square(sq);
            rep.eval();
            rep.count("ev_singletons");
            if bb.0 != 1u64 << s {
                rep.violation("C20/from_square", sq_name(s));
            }
            if bb.to_square() != sq {
                rep.violation("C20/from_square-to_square-inverse", sq_name(s));
            }
            if BitBoard::set(sq.get_rank(), sq.get_file()) != bb {
                rep.violation("C20/set", sq_name(s));
            }
            if BitBoard::from_maybe_square(Some(sq)) != Some(bb) || BitBoard::from_maybe_square(None).is_some() {
                rep.violation("C20/from_maybe_square", sq_name(s));
            }
            c20_value(1u64 << s, rep);
        }
        if EMPTY.0 != 0 || BitBoard(0).count() != 0 || BitBoard(0).next().is_some() {
            rep.violation("C20/empty", String::new());
        }
        rep.sample("all 64 singletons: from_square/to_square/set/from_maybe_square/iteration".to_string());
    });
    let sv = structured_values();
    let n = ctx.budget(2500, 30_000, 2, 200);
    ctx.cases(rep, "algebra", n, |gid, rng, rep| {
        let per = if miri { 12 } else { 1500 };
        for i in 0..per {
            let mut draw = |rng: &mut Rng| -> u64 {
                match rng.below(6) {
                    0 => *rng.pick(&sv),
                    1 => rng.next() & rng.next() & rng.next(),
                    2 => rng.next() | rng.next() | rng.next(),
                    3 => *rng.pick(&sv) ^ *rng.pick(&sv),
                    _ => rng.next(),
                }
            };
            let a = draw(rng);
            let b = draw(rng);
            rep.count("ev_pairs");
            c20_value(a, rep);
            c20_pair(a, b, rep);
            if gid == 0 && i < 2 {
                rep.sample(format!("{:016x} op {:016x}: 12 binary impls, 6 assigning forms, 2 complements, iteration, popcnt, reverse_colors", a, b));
            }
        }
    });
    // structured x structured (complete) on shard 0 slice
    ctx.cases(rep, "structured", 1, |_g, _rng, rep| {
        let step = if miri { 97 } else { 1 };
        let mut idx = 0;
        for (i, a) in sv.iter().enumerate() {
            if i % ctx.nshards != ctx.shard {
                continue;
            }
            c20_value(*a, rep);
            for b in sv.iter() {
                idx += 1;
                if idx % step == 0 {
                    c20_pair(*a, *b, rep);
                    rep.count("ev_structured_pairs");
                }
            }
        }
    });
}

// ================================================================================================ C19

#[derive(Copy, Clone, PartialEq, PartialOrd, Debug)]
struct Pair {
    a: u32,
    b: u32,
}

trait Val: Copy + Clone + PartialEq + PartialOrd + std::fmt::Debug {
    fn make(r: u64) -> Self;
    fn key(&self) -> u64;
    /// "exactly the value written": for floats the bit pattern (-0.0 is not 0.0, a NaN is itself)
    fn same(&self, o: &Self) -> bool {
        self == o
    }
}
fn same_opt<T: Val>(a: Option<T>, b: Option<T>) -> bool {
    match (a, b) {
        (Some(x), Some(y)) => x.same(&y),
        (None, None) => true,
        _ => false,
    }
}
/// float payloads (scores are often stored as floats): values whose `==` is not identity
fn special_f64(r: u64) -> f64 {
    match r % 10 {
        0 | 1 => -0.0,
        2 => 0.0,
        3 => f64::NAN,
        4 => f64::INFINITY,
        5 => -1.5,
        6 => f64::MIN_POSITIVE / 2.0,
        _ => f64::from_bits(r),
    }
}
impl Val for f64 {
    fn make(r: u64) -> f64 {
        special_f64(r)
    }
    fn key(&self) -> u64 {
        self.to_bits()
    }
    fn same(&self, o: &f64) -> bool {
        self.to_bits() == o.to_bits()
    }
}
impl Val for f32 {
    fn make(r: u64) -> f32 {
        match r % 10 {
            7 | 8 | 9 => f32::from_bits((r >> 8) as u32),
            _ => special_f64(r) as f32,
        }
    }
    fn key(&self) -> u64 {
        self.to_bits() as u64
    }
    fn same(&self, o: &f32) -> bool {
        self.to_bits() == o.to_bits()
    }
}
/// a float next to an integer, as in (score, depth)
#[derive(Copy, Clone, PartialEq, PartialOrd, Debug)]
struct Scored {
    score: f32,
    depth: i32,
}
impl Val for Scored {
    fn make(r: u64) -> Scored {
        Scored { score: <f32 as Val>::make(r), depth: if r % 3 == 0 { 0 } else { (r >> 40) as i32 } }
    }
    fn key(&self) -> u64 {
        self.score.to_bits() as u64 ^ (self.depth as u64) << 32
    }
    fn same(&self, o: &Scored) -> bool {
        self.score.to_bits() == o.score.to_bits() && self.depth == o.depth
    }
}
impl Val for u64 {
    fn make(r: u64) -> u64 {
        r
    }
    fn key(&self) -> u64 {
        *self
    }
}
impl Val for Pair {
    fn make(r: u64) -> Pair {
        Pair { a: r as u32, b: (r >> 32) as u32 }
    }
    fn key(&self) -> u64 {
        self.a as u64 | (self.b as u64) << 32
    }
}
/// 16-byte payload: the table slot (hash + payload) is 24 bytes - not a power of two
#[derive(Copy, Clone, PartialEq, PartialOrd, Debug)]
struct Wide {
    a: u64,
    b: u64,
}
impl Val for Wide {
    fn make(r: u64) -> Wide {
        Wide { a: r | 1, b: r.rotate_left(17) ^ 0x5a5a }
    }
    fn key(&self) -> u64 {
        self.a ^ self.b
    }
}
/// 12 bytes of payload (padded to 16), as in a typical transposition-table entry
#[derive(Copy, Clone, PartialEq, PartialOrd, Debug)]
struct Odd {
    a: u64,
    b: u32,
}
impl Val for Odd {
    fn make(r: u64) -> Odd {
        Odd { a: r | 2, b: (r >> 7) as u32 | 1 }
    }
    fn key(&self) -> u64 {
        self.a ^ self.b as u64
    }
}
impl Val for char {
    fn make(r: u64) -> char {
        std::char::from_u32((r % 0xd800) as u32).unwrap_or('x')
    }
    fn key(&self) -> u64 {
        *self as u64
    }
}

/// The statement of C19 speaks of "that hash's slot" without saying how a slot is derived from a hash (the pinned
/// code uses `hash & (size - 1)`).  The monitor therefore does not assume a mapping: it *infers* which hashes
/// share a slot by probing a scratch table of the same size (every representative of a known slot class is kept
/// resident; a new hash is written and the representative that disappears, if any, names its class).  For a library
/// that keeps the property under any deterministic mapping the inferred classes are the true slots; a library that
/// breaks the property cannot make the exact model below agree with it by confusing the inference, because hits
/// under a hash that was never written and lost values are judged per hash.
struct SlotOracle {
    scratch: CacheTable<u32>,
    search: CacheTable<u32>,
    reps: Vec<u64>,
    class_of: std::collections::HashMap<u64, usize>,
    size: usize,
}

impl SlotOracle {
    fn new(size: usize) -> SlotOracle {
        SlotOracle { scratch: CacheTable::new(size, 0), search: CacheTable::new(size, 0), reps: vec![], class_of: Default::default(), size }
    }
    fn class(&mut self, h: u64) -> usize {
        if let Some(c) = self.class_of.get(&h) {
            return *c;
        }
        self.scratch.add(h, 1);
        let mut found = None;
        for (i, r) in self.reps.iter().enumerate() {
            if *r != h && self.scratch.get(*r).is_none() {
                found = Some(i);
                break;
            }
        }
        let c = match found {
            Some(i) => {
                self.scratch.add(self.reps[i], 1);
                i
            }
            None => {
                self.reps.push(h);
                self.reps.len() - 1
            }
        };
        self.class_of.insert(h, c);
        c
    }
    /// another hash that lands in the slot of `h0`: first the guess of the pinned mapping (same low bits), then search
    fn partner(&mut self, h0: u64, rng: &mut Rng, budget: usize) -> Option<u64> {
        self.search.add(h0, 1);
        let mask = self.size as u64 - 1;
        for i in 0..budget {
            let q = if i == 0 { (rng.next() & !mask) | (h0 & mask) } else { rng.next() };
            if q == h0 {
                continue;
            }
            self.search.add(q, 2);
            if self.search.get(h0).is_none() {
                return Some(q);
            }
        }
        None
    }
    fn low_bits_mapping(&self) -> bool {
        // do the inferred classes coincide with `hash & (size-1)` on everything classified so far?
        let mask = self.size as u64 - 1;
        let mut low_of_class: std::collections::HashMap<usize, u64> = Default::default();
        let mut class_of_low: std::collections::HashMap<u64, usize> = Default::default();
        for (h, c) in self.class_of.iter() {
            if *low_of_class.entry(*c).or_insert(h & mask) != h & mask || *class_of_low.entry(h & mask).or_insert(*c) != *c {
                return false;
            }
        }
        true
    }
}

fn c19_sequence<T: Val>(size: usize, nops: usize, rng: &mut Rng, rep: &mut Report, tname: &str, miri: bool) {
    let default = T::make(rng.next());
    let mut table: CacheTable<T> = CacheTable::new(size, default);
    let mut oracle = SlotOracle::new(size);
    // model: slot class -> (hash under which it was last written, value); absent = fresh = (0, default)
    let mut model: std::collections::HashMap<usize, (u64, T)> = Default::default();
    // hash pool: collide in the low bits, differ in the high bits; plus 0 and u64::MAX
    let mut pool: Vec<u64> = vec![0, u64::MAX, size as u64, (size as u64).wrapping_sub(1), 1u64 << 63];
    let nslots = 1 + rng.below(6.min(size));
    for _ in 0..nslots {
        let low = rng.next() % size as u64;
        for _ in 0..(1 + rng.below(4)) {
            let high = rng.next() & !((size as u64) - 1);
            pool.push(high | low);
        }
        pool.push(low);
    }
    for _ in 0..4 {
        pool.push(rng.next());
    }
    // pairs that agree in the low 32 (16, 48) bits and differ above: a truncated stored key would confuse them
    let n0 = pool.len();
    for i in 0..n0.min(6) {
        let h = pool[rng.below(n0)];
        pool.push(h ^ (1u64 << 32));
        pool.push(h ^ (1u64 << (33 + rng.below(30))));
        if i % 2 == 0 {
            pool.push((h & 0xffff_ffff) | (rng.next() << 32));
            pool.push((h & 0xffff) | (rng.next() << 16));
            pool.push(h ^ (1u64 << 63));
        }
    }
    pool.push(1u64 << 32);
    pool.push(0xdead_beef_0000_0000);
    // pairs whose two 32-bit halves fold (xor / sum) to the same word and which share their low bits:
    // a stored key folded to 32 bits would confuse them
    for _ in 0..4 {
        let h = pool[rng.below(n0)];
        let d = (rng.next() & 0xffff_ff00) & !((size as u64 - 1) & 0xffff_ffff);
        pool.push(h ^ d ^ (d << 32));
        let hi = h >> 32;
        let lo = h & 0xffff_ffff;
        let e = d & 0x00ff_ff00;
        pool.push((hi.wrapping_sub(e) & 0xffff_ffff) << 32 | (lo.wrapping_add(e) & 0xffff_ffff));
    }
    // slot sharing is inferred, not assumed: make sure that there ARE hashes sharing a slot whatever the mapping is
    let budget = if miri { 48 } else { (8 * size).min(300_000).max(64) };
    let mut shared = 0;
    for i in 0..nslots.min(4) {
        let h0 = pool[5 + i.min(pool.len() - 6)];
        for _ in 0..2 {
            if let Some(q) = oracle.partner(h0, rng, budget) {
                pool.push(q);
                shared += 1;
            }
        }
    }
    if shared > 0 {
        rep.count("ev_sequences_with_searched_slot_partners");
    }
    let pool_classes: std::collections::HashSet<usize> = pool.iter().map(|h| oracle.class(*h)).collect();
    rep.count("ev_sequences");
    rep.count(&format!("ev_size_log2_{}", size.trailing_zeros()));
    // untouched slots all over the table (also its upper end) must behave as (hash 0, default):
    // first touch through a value-dependent predicate, then a lookup
    if size >= 64 {
        let probes = 24.min(size);
        for i in 0..probes {
            let slot = match i % 3 {
                0 => size - 1 - rng.below(size / 3 + 1),
                1 => rng.below(size),
                _ => size / 2 + rng.below(size / 2),
            } as u64;
            let h = (rng.next() & !((size as u64) - 1)) | slot;
            let c = oracle.class(h);
            if h == 0 || model.contains_key(&c) || pool_classes.contains(&c) {
                continue;
            }
            let v = T::make(rng.next());
            let seen = std::cell::Cell::new(None::<T>);
            rep.count("op_replace_if");
            rep.count("ev_first_touch_of_untouched_slot");
            table.replace_if(h, v, |x| {
                seen.set(Some(x));
                x.same(&default)
            });
            if !same_opt(seen.get(), Some(default)) {
                rep.violation(&format!("C19/fresh-slot/predicate-sees-non-default/{}", tname), format!("size={} slot={} predicate saw {:?}, default is {:?}", size, slot, seen.get(), default));
            }
            model.insert(c, (h, v));
            rep.count("op_get");
            if !same_opt(table.get(h), Some(v)) {
                rep.violation(&format!("C19/fresh-slot/conditional-write-lost/{}", tname), format!("size={} slot={} hash={:x}", size, slot, h));
            }
            pool.push(h);
        }
    }
    rep.count(if oracle.low_bits_mapping() { "info_slot_is_low_bits_of_hash" } else { "info_slot_is_not_low_bits_of_hash" });
    let mut seq_hash = size as u64;
    for step in 0..nops {
        let h = *rng.pick(&pool);
        let slot = oracle.class(h);
        let held = *model.get(&slot).unwrap_or(&(0, default));
        rep.eval();
        match rng.below(4) {
            0 => {
                let v = T::make(rng.next());
                rep.count("op_add");
                if held.0 != h {
                    rep.count("ev_overwrite_other_hash");
                }
                table.add(h, v);
                model.insert(slot, (h, v));
                seq_hash = seq_hash.wrapping_mul(31).wrapping_add(h ^ v.key());
            }
            1 => {
                let v = T::make(rng.next());
                let mode = rng.below(3);
                let cur = held.1;
                let threshold = T::make(rng.next());
                let seen = std::cell::Cell::new(None::<T>);
                let calls = std::cell::Cell::new(0u32);
                rep.count("op_replace_if");
                table.replace_if(h, v, |x| {
                    seen.set(Some(x));
                    calls.set(calls.get() + 1);
                    match mode {
                        0 => true,
                        1 => false,
                        _ => x < threshold,
                    }
                });
                let should = match mode {
                    0 => true,
                    1 => false,
                    _ => cur < threshold,
                };
                if calls.get() != 1 {
                    rep.count("info_predicate_calls_not_1");
                }
                if let Some(s) = seen.get() {
                    if !s.same(&cur) {
                        rep.violation(&format!("C19/replace_if/predicate-argument/{}", tname), format!("size={} step={} hash={:x}: predicate saw {:?}, slot holds {:?}", size, step, h, s, cur));
                    }
                } else if mode == 2 || mode == 0 {
                    rep.violation(&format!("C19/replace_if/predicate-not-consulted/{}", tname), format!("size={} step={}", size, step));
                }
                if should {
                    rep.count("ev_replace_true");
                    model.insert(slot, (h, v));
                } else {
                    rep.count("ev_replace_false");
                }
                seq_hash = seq_hash.wrapping_mul(31).wrapping_add(h ^ v.key() ^ mode as u64);
            }
            _ => {}
        }
        // lookups: the hash just used, and a colliding / random one
        for q in [h, *rng.pick(&pool)].iter() {
            let qs = oracle.class(*q);
            let held = *model.get(&qs).unwrap_or(&(0, default));
            let want = if held.0 == *q { Some(held.1) } else { None };
            rep.count("op_get");
            if held.0 != *q && (held.0 != 0 || !held.1.same(&default)) {
                rep.count("ev_lookup_colliding_slot");
            }
            let got = table.get(*q);
            if !same_opt(got, want) {
                let sig = match (got.is_some(), want.is_some()) {
                    (true, false) => "returned-value-stored-under-other-hash",
                    (false, true) => "lost-value",
                    _ => "wrong-value",
                };
                rep.violation(
                    &format!("C19/get/{}/{}", sig, tname),
                    format!("size={} step={} get({:x}) = {:?} want {:?} (slot last written under {:x})", size, step, q, got, want, held.0),
                );
            }
        }
    }
    rep.seen(seq_hash);
}

/// Statistical probe: one slot is written under hash h0, then `n` other hashes that map to the same
/// slot are looked up; every one must miss.  A stored key truncated or folded to k bits would produce
/// about n / 2^k false hits.
fn c19_false_hit_probe(size: usize, n: u64, rng: &mut Rng, rep: &mut Report) {
    let mut table: CacheTable<u64> = CacheTable::new(size, 0x1234);
    let h0 = rng.next();
    table.add(h0, 99);
    let mask = size as u64 - 1;
    let low = h0 & mask;
    let mut x = rng.next();
    let mut hits = 0u64;
    let mut first = 0u64;
    for _ in 0..n {
        // xorshift* is plenty here and much cheaper than the case RNG
        x ^= x >> 12;
        x ^= x << 25;
        x ^= x >> 27;
        let q = (x.wrapping_mul(0x2545F4914F6CDD1D) & !mask) | low;
        if q == h0 || q == 0 {
            continue;
        }
        if table.get(q).is_some() {
            hits += 1;
            if first == 0 {
                first = q;
            }
        }
    }
    rep.add("op_get", n);
    rep.add("ev_false_hit_probes", n);
    rep.evaluations += n;
    if hits > 0 {
        rep.violation("C19/get/false-hit-in-bulk-probe", format!("size={} written under {:x}; {} of {} other hashes of the same slot were answered, first {:x}", size, h0, hits, n, first));
    }
    if table.get(h0) != Some(99) {
        rep.violation("C19/get/lost-value/u64", format!("size={} get({:x}) after the probe", size, h0));
    }
}

pub fn run_c19(ctx: &Ctx, rep: &mut Report) {
    let miri = ctx.variant == Variant::Miri;
    let max_log2: u32 = match (ctx.variant, ctx.tier) {
        (Variant::Miri, _) => 10,
        (Variant::San, _) => 22,
        (_, Tier::Quick) => 16,
        (_, Tier::Thorough) => 22,
    };
    // construction: panics exactly for non powers of two
    ctx.cases(rep, "construction", 1, |_g, rng, rep| {
        let mut sizes: Vec<usize> = vec![0, 3, 5, 6, 7, 9, 10, 12, 15, 17, 24, 31, 33, 48, 63, 65, 96, 100, 127, 129, 255, 257, 1000, 1023, 1025, 4095, 4097, 65535, 65537];
        for k in 2..=max_log2.min(20) {
            sizes.push((1usize << k) + 1);
            sizes.push((1usize << k) - 1);
            sizes.push((1usize << k) + (1usize << (k - 1)));
        }
        for _ in 0..(if miri { 5 } else { 200 }) {
            sizes.push(1 + rng.below(1 << 14));
        }
        for k in 0..=max_log2 {
            if ctx.shard as u32 == k % ctx.nshards as u32 {
                sizes.push(1usize << k);
            }
        }
        if miri {
            sizes.retain(|s| *s <= 1100);
        }
        for s in sizes {
            rep.eval();
            let pow2 = s != 0 && s & (s - 1) == 0;
            let r = catch_unwind(AssertUnwindSafe(|| {
                let t: CacheTable<u64> = CacheTable::new(s, 7);
                t.get(0)
            }));
            rep.count(if pow2 { "ev_valid_sizes" } else { "ev_invalid_sizes" });
            match (r, pow2) {
                (Ok(g), true) => {
                    // untouched slot behaves as (hash 0, default)
                    if g != Some(7) {
                        rep.violation("C19/fresh-slot", format!("size={} get(0) on a fresh table = {:?} want Some(default)", s, g));
                    }
                }
                (Ok(_), false) => rep.violation("C19/new/no-panic-for-non-power-of-two", format!("size={}", s)),
                (Err(_), true) => rep.violation("C19/new/panic-for-power-of-two", format!("size={}", s)),
                (Err(_), false) => {}
            }
        }
    });
    // bulk probe for truncated / folded keys: 2^33 lookups per run in the quick tier (2^36 thorough)
    if ctx.variant == Variant::Native {
        let per_shard: u64 = if ctx.tier == Tier::Thorough { 1u64 << 32 } else { 1u64 << 29 };
        ctx.cases(rep, "false-hit-probe", 4, |gid, rng, rep| {
            let size = [1usize, 2, 1024, 1 << 16][(gid % 4) as usize];
            c19_false_hit_probe(size, per_shard / 4, rng, rep);
        });
    }
    // op sequences: every size 2^0..2^max, several sequences each, three value types
    let reps = ctx.budget(40, 300, 1, 3);
    ctx.cases(rep, "ops", (max_log2 as u64 + 1) * reps, |gid, rng, rep| {
        let k = (gid % (max_log2 as u64 + 1)) as u32;
        let size = 1usize << k;
        let nops = if miri { 60 } else if size > 1 << 18 { 400 } else { 3000 };
        match gid % 8 {
            5 => c19_sequence::<f64>(size, nops, rng, rep, "f64", miri),
            6 => c19_sequence::<f32>(size, nops, rng, rep, "f32", miri),
            7 => c19_sequence::<Scored>(size, nops, rng, rep, "scored", miri),
            0 => c19_sequence::<u64>(size, nops, rng, rep, "u64", miri),
            1 => c19_sequence::<Pair>(size, nops, rng, rep, "pair", miri),
            2 => c19_sequence::<Wide>(size, nops, rng, rep, "wide", miri),
            3 => c19_sequence::<Odd>(size, nops, rng, rep, "odd", miri),
            _ => c19_sequence::<char>(size, nops, rng, rep, "char", miri),
        }
        if gid < 2 {
            rep.sample(format!("size 2^{}: {} random add/replace_if/get ops over a pool of colliding hashes, value type #{}", k, nops, gid % 8));
        }
    });
}
