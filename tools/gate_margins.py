#!/usr/bin/env python3
"""Developer tool: smallest observed/minimum ratio of every check's coverage gates in evidence/*.json."""
import json, glob, os
ROOT = os.path.dirname(os.path.dirname(os.path.abspath(__file__)))
for f in sorted(glob.glob(os.path.join(ROOT, "evidence", "C*.json"))):
    e = json.load(open(f))
    gs = e["coverage"].get("gates", [])
    worst = sorted(((g["observed"] / max(1, g["minimum"]), g["gate"], g["observed"], g["minimum"]) for g in gs))[:3]
    print(e["property_id"], e["tier"], "seed", e["seed"], e["coverage"].get("verdict"), " ".join("%s=%d/%d(x%.1f)" % (w[1], w[2], w[3], w[0]) for w in worst))
