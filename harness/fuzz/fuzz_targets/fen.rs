#![no_main]
//! C07 under libFuzzer + ASan: arbitrary text -> Board::from_str / BoardBuilder::from_str;
//! accepted boards must satisfy the necessary conditions and survive one step of use.
use harness::report::Report;
use libfuzzer_sys::fuzz_target;

fuzz_target!(|data: &[u8]| {
    let text = String::from_utf8_lossy(data);
    let mut rep = Report::new("C07");
    harness::mon_valid::judge_text(&text, false, &mut rep);
    if rep.total_violations() > 0 {
        let v = &rep.violations[0];
        panic!("VIOLATION {} :: {}", v.sig, v.detail);
    }
});
