#![no_main]
//! C12 under libFuzzer + ASan: first byte selects a position, the rest is the SAN text.
//! Oracle: no panic; Ok(m) => m is legal per the reference model; and when the text is a
//! well-formed spelling the independent strict reader's verdict must be respected.
use harness::report::Report;
use libfuzzer_sys::fuzz_target;

fuzz_target!(|data: &[u8]| {
    if data.is_empty() {
        return;
    }
    let text = String::from_utf8_lossy(&data[1..]);
    let mut rep = Report::new("C12");
    harness::mon_san::fuzz_one(data[0] as usize, &text, &mut rep);
    if rep.total_violations() > 0 {
        let v = &rep.violations[0];
        panic!("VIOLATION {} :: {}", v.sig, v.detail);
    }
});
