#!/usr/bin/env python3
"""Regenerate MANIFEST.json from the per-property table in ./check (developer tool)."""
import json, os, runpy
ROOT = os.path.dirname(os.path.dirname(os.path.abspath(__file__)))
g = runpy.run_path(os.path.join(ROOT, "check"), run_name="check_module")
PROPS = g["PROPS"]
tech = {
 'C01':'differential oracle: MoveGen and Board::legal (all 20480 triples on sampled nodes) vs an independent mailbox reference model, over random playouts (continuing through rights-only divergence; echo visits of look-alike positions), complete move trees, 23 directed recipes, set-up e.p. positions, every slider-table entry reached through the generator, and a stored coverage-guided corpus; UB-check build, Miri (move-kind tour, threads smoke); thorough adds ASan',
 'C02':'differential oracle on successors (both entry points; default, unrelated, look-alike and uninitialised output boards) vs the reference model; UB-check build, Miri move-kind tour incl. the castle-rights tables of the other colour, threads smoke; thorough adds ASan',
 'C03':'runtime invariants at every node + from-scratch twins (FEN, builder) + reference-model attack/pin oracle, incl. positions with up to 15 lined-up sliders and every slider-table entry; UB-check build, Miri',
 'C04':'exhaustive execution of all 3-man (thorough: 12 four-man) endgames + status oracle in play (echo visits of look-alike positions against state that survives between calls) with a one-ply look-ahead onto every terminal and few-move successor (games ended by e.p., castling, promotion; stalemates with an illegal pseudo-legal e.p. capture); UB-check build, Miri',
 'C05':'history monitor along the moves the library itself generates (validity, king count, monotone rights and material, is_sane) over long playouts and move trees; UB-check build, Miri',
 'C06':'independent FEN lexer and standard writer as oracle at every node of the walk workloads + round trips through text and builder, incl. the longest FENs a valid position has; UB-check build, ASan and Miri over the renderer',
 'C07':'hostile-input workload (mutated / random text, arbitrary, crowded, lattice, full-board and home-square-confusion builder states, edited copies of validated boards, the same builder content reached along different construction paths and through the three TryFrom impls) under panic capture; necessary-condition oracle and one step of use on every accepted board; UB-check build, Miri; thorough adds ASan and a libFuzzer target',
 'C08':'event log of (exact position, hash, path) merged offline for path independence + from-scratch twins, transposition and move-order workloads, Hash/Eq consistency; UB-check build, Miri',
 'C09':'single-component sibling oracle (all rights subsets, e.p. files, every man), key-independence analysis and offline collision scan over the merged event logs of sparse positions; UB-check build, Miri',
 'C10':'online trace automaton (model game) over adversarial action scripts (legal / illegal / pseudo-legal moves with every promotion-field value, offers, accepts, resignations, declarations, calls after the result, a 66000-action log); UB-check build, Miri; thorough adds a libFuzzer target over action scripts',
 'C11':'online trace automaton with FIDE repetition identity and half-move clock over long reversible games (avoid / seek policies), windows opened by each kind of irreversible move, castling and rights loss inside the window, draw offers inside quiet stretches; UB-check build, Miri; thorough adds the libFuzzer game target',
 'C12':'independent SAN writer and strict reader as oracle over all spellings of all legal moves, near-miss families (pseudo-legal-but-illegal with every decoration, own-piece destinations, sibling positions) and fuzzed text incl. systematic non-ASCII insertions, also on accepted boards with more than 218 legal moves; UB-check build, ASan, Miri; thorough adds libFuzzer targets',
 'C13':'exhaustive execution of all 20480 moves and 64 squares (render, re-parse), adversarial text under panic capture, call-history independence (every canonical text re-parsed after 12 relatives), range check and table use of every parsed square; UB-check build, Miri; thorough adds a libFuzzer target',
 'C14':'online trace automaton of the iterator contract over scripted call sequences (masks, len, removals) with retrospective length-claim checking + equivalence of every Iterator adaptor with plain next(); UB-check build, Miri (uninitialised move-list tail); thorough adds ASan',
 'C15':'exhaustive execution of every relevant occupancy per square (plus noise) against a ray walker in the default and +bmi2 builds, call-history independence (primed pairs, relocations, sparse boards, index neighbours); UB-check builds, ASan over +bmi2, Miri sample',
 'C16':'exhaustive execution of the geometry functions and square arithmetic against coordinate definitions, sweep over every Square constructor with out-of-range inputs; UB-check build, ASan, Miri',
 'C17':'metamorphic oracle (colour and left-right mirror images) with lock-step parallel playouts; UB-check build, Miri',
 'C18':'from-scratch twin comparison + reference-model oracle for null moves at every node and interleaved in histories, incl. many lined-up sliders; UB-check build, Miri',
 'C19':'model-based op-sequence monitor (exact model per slot class; slot sharing inferred by probing a scratch table, not assumed to be hash & mask; searched slot partners, truncated- and folded-key pairs) over eight payload types incl. floats compared by bit pattern, bulk false-hit probe of 2^33 lookups; UB-check build, ASan, Miri; thorough adds valgrind memcheck',
 'C20':'bit-by-bit set-model oracle over exhaustive singletons, structured and random values, all operator variants (owned / borrowed / assigning, same-object operands) and Iterator adaptors; UB-check build, Miri',
}
hook_commits = [l.split()[0] for l in os.popen("git -C /repo log --oneline --grep='^verif hook'").read().splitlines()]
checks = []
FUZZ = g.get('FUZZ_TARGETS', {})
for pid in sorted(PROPS):
    c = PROPS[pid]
    if pid in FUZZ and 'libFuzzer' not in tech[pid]:
        tech[pid] += '; thorough tier adds coverage-guided libFuzzer+ASan (' + ', '.join(t[0] for t in FUZZ[pid]) + ' target) with the same oracle'
    checks.append(dict(
        property_id=pid,
        quick_cmd="./check %s --tier quick" % pid,
        thorough_cmd="./check %s --tier thorough" % pid,
        evidence_file="evidence/%s.json" % pid,
        replay_cmd_template="./check %s --replay {path}" % pid,
        engine="harness",
        level_claimed=dict(category="exploration",
            text="Runtime monitoring: the property held on every execution the workloads produced (counts, features and samples in the evidence file); %s. Nothing is claimed about inputs or histories that were not driven." % tech[pid],
            design_ref="DESIGN.md section 3, %s" % pid),
        level_note="Trusted base: the independent mailbox reference model / coordinate-level oracles in harness/src (model self-checked against published perft numbers at every worker start), rustc / Miri / ASan / valgrind, and the driver's attribution of process aborts to the last case marker. " + " ".join(c['assumptions']),
        technique=tech[pid]))
m = dict(version=1,
  setup_cmd="./check --setup",
  hooks=dict(guard="cfg(chess_verif)", enable='RUSTFLAGS="--cfg chess_verif" (set by ./check for every variant it builds)',
     baseline_off_cmd="cd /repo && cargo test --workspace --no-fail-fast --offline",
     source_commits=hook_commits, add_only=True),
  engines=[dict(name="harness", path="harness", serves_properties=sorted(PROPS), kind_free_text="Rust worker (bin mon) with reference model, workloads and one monitor per property, built from /repo's working tree in several instrumented variants (UB-check release build, +bmi2, Miri, ASan, ASan over +bmi2, valgrind memcheck, libFuzzer targets fen / san / uci / play / game); every worker starts with a multi-threaded first use of the library (Miri's race detector as oracle); python driver ./check shards it over 16 processes, merges event logs, applies coverage gates and known findings, writes evidence")],
  checks=checks,
  notes="Verdicts are three-valued: exit 0 held on what was observed, exit 1 VIOLATION with replay file, exit 2 INCONCLUSIVE (harness/build problem, watchdog, coverage gate). Genuine defects found and repaired are listed in KNOWN_FINDINGS.txt (fixed: lines) and DESIGN.md section 6.",
  not_applicable=[])
json.dump(m, open(os.path.join(ROOT, "MANIFEST.json"), "w"), indent=1)
print("wrote MANIFEST.json with", len(checks), "checks; hook commits", hook_commits)
