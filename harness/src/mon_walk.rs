//! Node monitors for the position-walking properties: C01 C02 C03 C05 C06 C08 C09 C17 C18.
use crate::conv::*;
use crate::refchess::*;
use crate::report::*;
use crate::rng::Rng;
use crate::synth::Start;
use crate::walk::*;
use chess::{BitBoard, Board, BoardBuilder, BoardStatus, ChessMove, Color, File, MoveGen, Piece, Square, ALL_SQUARES};
use std::collections::hash_map::DefaultHasher;
use std::collections::HashMap;
use std::convert::TryFrom;
use std::hash::{Hash, Hasher};
use std::mem::MaybeUninit;
use std::str::FromStr;

pub fn is_scenario(tag: &str) -> bool {
    !(tag == "corpus" || tag.starts_with("synth_s") || tag.starts_with("synth_d"))
}

/// exact 34-byte encoding of (placement, side, rights, e.p. file as recorded by the library)
pub fn pack(p: &RPos, ep_file: Option<u8>) -> [u8; 34] {
    let mut o = [0u8; 34];
    for i in 0..32 {
        o[i] = p.sq[2 * i] | (p.sq[2 * i + 1] << 4);
    }
    o[32] = p.stm | (p.castle << 1);
    o[33] = ep_file.unwrap_or(0xff);
    o
}
pub fn unpack(o: &[u8]) -> (RPos, Option<u8>) {
    let mut p = RPos::empty();
    for i in 0..32 {
        p.sq[2 * i] = o[i] & 15;
        p.sq[2 * i + 1] = o[i] >> 4;
    }
    p.stm = o[32] & 1;
    p.castle = o[32] >> 1;
    let ep = if o[33] == 0xff { None } else { Some(o[33]) };
    (p, ep)
}
pub fn describe_packed(o: &[u8]) -> String {
    let (p, ep) = unpack(o);
    format!("{} [lib e.p. file {:?}]", p.fen_with_ep(None), ep.map(|f| (b'a' + f) as char))
}

/// The standard hash of a board: alone, and as an element of an array / slice / Vec / tuple / Option
/// (`Hash::hash_slice` and the container impls are part of "the standard Hash" as much as `hash` is).
fn std_hash(b: &Board) -> u64 {
    static START: std::sync::OnceLock<Board> = std::sync::OnceLock::new();
    let start = *START.get_or_init(Board::default);
    let mut h = DefaultHasher::new();
    b.hash(&mut h);
    let single = h.finish();
    let mut h = DefaultHasher::new();
    [start, *b].hash(&mut h);
    vec![*b, start, *b].hash(&mut h);
    (&[*b][..]).hash(&mut h);
    (*b, 7u8).hash(&mut h);
    Some(*b).hash(&mut h);
    single ^ h.finish().rotate_left(17)
}

fn moves_str(v: &[RMove]) -> String {
    v.iter().map(|m| m.uci()).collect::<Vec<_>>().join(" ")
}

// ================================================================================================ C01

pub struct C01 {
    pub variant: Variant,
}

impl NodeMon for C01 {
    fn through_rights_divergence(&self) -> bool {
        true
    }
    fn node(&mut self, n: &Node, rep: &mut Report, rng: &mut Rng) {
        if n.diverged {
            return;
        }
        let b = n.b;
        let fen = n.p.fen();
        rep.eval();
        rep.count("op_new_legal");
        if !n.legal.is_empty() {
            rep.seen(hash_bytes(&pack(n.p, n.p.ep)));
        }
        // ---- iterate the generator
        let mut it = MoveGen::new_legal(b);
        let fresh_len = it.len();
        let mut got: Vec<RMove> = vec![];
        loop {
            match it.next() {
                Some(m) => {
                    got.push(model_move(m));
                    if got.len() > 256 {
                        rep.violation("C01/generator/more-than-256-items", format!("fen={} generator yields more than 256 items", fen));
                        break;
                    }
                }
                None => break,
            }
        }
        rep.add("ev_generated_moves", got.len() as u64);
        let mut want: Vec<RMove> = n.legal.to_vec();
        want.sort();
        let mut g = got.clone();
        g.sort();
        for w in g.windows(2) {
            if w[0] == w[1] {
                rep.violation("C01/generator/duplicate", format!("fen={} move {} generated twice", fen, w[0].uci()));
            }
        }
        g.dedup();
        let extra: Vec<RMove> = g.iter().cloned().filter(|m| want.binary_search(m).is_err()).collect();
        let missing: Vec<RMove> = want.iter().cloned().filter(|m| g.binary_search(m).is_err()).collect();
        if !extra.is_empty() {
            let kind = if extra.iter().any(|m| n.p.is_ep_capture(*m)) {
                "ep"
            } else if extra.iter().any(|m| n.p.is_castle(*m)) {
                "castle"
            } else {
                "other"
            };
            rep.violation(&format!("C01/generator/extra/{}", kind), format!("fen={} generated but not legal: {}", fen, moves_str(&extra)));
        }
        if !missing.is_empty() {
            let kind = if missing.iter().any(|m| n.p.is_ep_capture(*m)) {
                "ep"
            } else if missing.iter().any(|m| n.p.is_castle(*m)) {
                "castle"
            } else {
                "other"
            };
            rep.violation(&format!("C01/generator/missing/{}", kind), format!("fen={} legal but not generated: {}", fen, moves_str(&missing)));
        }
        if fresh_len != want.len() && g.len() == want.len() && extra.is_empty() && missing.is_empty() {
            // the iterated set is right and only len() is off: that is C14's (and via status() C04's) business
            rep.count("info_fresh_len_differs_while_iteration_is_exact");
        }
        // ---- informational only (not part of the property): legal_quick, deprecated buffer API
        for m in n.legal.iter() {
            if !MoveGen::legal_quick(b, lib_move(*m)) {
                rep.count("info_legal_quick_false_on_legal_move");
            }
        }
        if self.variant != Variant::Miri || rng.chance(1, 8) {
            #[allow(deprecated)]
            {
                let mut buf = [ChessMove::default(); 256];
                let cnt = b.enumerate_moves(&mut buf);
                if cnt != want.len() {
                    rep.count("info_enumerate_moves_count_differs");
                }
            }
        }
        // ---- the single-move legality query
        for m in n.legal.iter() {
            rep.count("op_board_legal");
            if !b.legal(lib_move(*m)) {
                rep.violation("C01/query/false-on-legal", format!("fen={} legal({}) = false", fen, m.uci()));
            }
        }
        // near misses: pseudo-legal but illegal, promotion flag flipped, plus random triples
        let mut probes: Vec<RMove> = n.p.pseudo().into_iter().filter(|m| want.binary_search(m).is_err()).collect();
        rep.add("ev_pseudo_illegal_probes", probes.len() as u64);
        for m in n.legal.iter().take(12) {
            if m.promo == 0 {
                probes.push(RMove::new(m.from, m.to, *rng.pick(&[Q, R, B, N])));
            } else {
                probes.push(RMove::new(m.from, m.to, 0));
            }
        }
        let nrand = if self.variant == Variant::Miri { 4 } else { 24 };
        for _ in 0..nrand {
            probes.push(RMove::new(rng.below(64) as u8, rng.below(64) as u8, *rng.pick(&[0, 0, 0, Q, R, B, N])));
        }
        // castling-looking and e.p.-looking probes
        let home: Sq = if n.p.stm == WHITE { 4 } else { 60 };
        probes.push(RMove::new(home, home + 2, 0));
        probes.push(RMove::new(home, home - 2, 0));
        if let Some(e) = n.p.ep {
            let (f, r) = fr(e);
            let back = if n.p.stm == WHITE { r - 1 } else { r + 1 };
            for df in [-1i8, 1].iter() {
                if let Some(s) = mk(f + df, back) {
                    probes.push(RMove::new(s, e, 0));
                }
            }
        }
        for m in probes {
            rep.count("op_board_legal");
            let want_legal = want.binary_search(&m).is_ok();
            if b.legal(lib_move(m)) != want_legal {
                rep.violation(
                    if want_legal { "C01/query/false-on-legal" } else { "C01/query/true-on-illegal" },
                    format!("fen={} legal({}) = {} expected {}", fen, m.uci(), !want_legal, want_legal),
                );
            }
        }
        // complete 20480-triple sweep
        let sweep = self.variant != Variant::Miri && ((is_scenario(n.tag) && (n.ply == 0 || (n.ply <= 2 && rng.chance(1, 5)))) || rng.chance(1, 48));
        if sweep {
            rep.count("ev_full_sweeps");
            let promos = [None, Some(Piece::Queen), Some(Piece::Rook), Some(Piece::Bishop), Some(Piece::Knight)];
            let mut yes = 0;
            for s in 0..64u8 {
                for d in 0..64u8 {
                    for pr in promos.iter() {
                        let m = ChessMove::new(Square::new(s), Square::new(d), *pr);
                        let r = b.legal(m);
                        let w = want.binary_search(&model_move(m)).is_ok();
                        if r {
                            yes += 1;
                        }
                        if r != w {
                            rep.violation(
                                if w { "C01/sweep/false-on-legal" } else { "C01/sweep/true-on-illegal" },
                                format!("fen={} legal({}) = {} expected {}", fen, m, r, w),
                            );
                        }
                    }
                }
            }
            rep.add("op_board_legal", 20480);
            if yes != want.len() {
                rep.violation("C01/sweep/count", format!("fen={} sweep found {} legal triples, model {}", fen, yes, want.len()));
            }
        }
        // ---- slot usage through the hook (evidence for C07's capacity argument; informational here)
        let gen = MoveGen::new_legal(b);
        let slots = gen.verif_slots() as u64;
        rep.max("max_slots_used", slots);
        rep.max("slot_capacity", gen.verif_capacity() as u64);
        rep.max("max_legal_moves", want.len() as u64);
        // representation-independent pressure measure (men with a legal move + e.p. captures), used by the coverage gate:
        // a library that lays its move list out differently must not make this check inconclusive
        rep.max("max_model_slots", model_slots(n.p, &want) as u64);
        if n.ply == 0 {
            rep.sample(format!("{} -> {} legal moves: {}", fen, want.len(), moves_str(&want)));
        }
    }
}

/// number of move-list slots the position needs: men with >=1 legal non-e.p. move + legal e.p. captures
pub fn model_slots(p: &RPos, legal: &[RMove]) -> usize {
    let mut src = 0u64;
    let mut eps = 0;
    for m in legal {
        if p.is_ep_capture(*m) {
            eps += 1;
        } else {
            src |= 1u64 << m.from;
        }
    }
    src.count_ones() as usize + eps
}

// ================================================================================================ C02

pub struct C02 {
    pub variant: Variant,
    pub dirty: Option<Board>,
}

impl NodeMon for C02 {
    fn node(&mut self, n: &Node, rep: &mut Report, rng: &mut Rng) {
        if n.diverged {
            return;
        }
        let b = n.b;
        let before = *b;
        let before_obs = observe(b);
        let fen = n.p.fen();
        if !n.legal.is_empty() {
            rep.seen(hash_bytes(&pack(n.p, n.p.ep)));
        }
        let default_board = Board::default();
        // look-alikes of the source: same placement and side, other castling rights / no e.p. state, and the
        // position after passing the turn - an implementation that "recognises" its output as a copy of the
        // source and skips part of the copy would inherit the wrong component from them
        let mut lookalikes: Vec<(&'static str, Board)> = vec![];
        {
            let orig: BoardBuilder = b.into();
            for (c, name) in [(Color::White, "lookalike-white-rights"), (Color::Black, "lookalike-black-rights")].iter() {
                let cur = rights_bits(orig.get_castle_rights(*c));
                if cur != 0 {
                    let mut bb = orig;
                    bb.castle_rights(*c, lib_rights(cur & (cur - 1)));
                    if let Ok(t) = Board::try_from(&bb) {
                        lookalikes.push((name, t));
                    }
                }
            }
            if b.en_passant().is_some() {
                let mut bb = orig;
                bb.en_passant(None);
                if let Ok(t) = Board::try_from(&bb) {
                    lookalikes.push(("lookalike-no-ep", t));
                }
            }
            if let Some(t) = b.null_move() {
                lookalikes.push(("lookalike-other-side", t));
            }
        }
        let limit = if self.variant == Variant::Miri { 6 } else { usize::MAX };
        let mut order: Vec<RMove> = n.legal.to_vec();
        if order.len() > limit {
            // keep the special moves, sample the rest
            order.sort_by_key(|m| !(n.p.is_ep_capture(*m) || n.p.is_castle(*m) || m.promo != 0 || n.p.is_double_push(*m)));
            let keep = order[..limit / 2].to_vec();
            let mut rest = order[limit / 2..].to_vec();
            rng.shuffle(&mut rest);
            order = keep;
            order.extend(rest.into_iter().take(limit / 2));
        }
        for m in order.iter() {
            let m = *m;
            let lm = lib_move(m);
            rep.eval();
            rep.count("op_make_move_new");
            let s1 = b.make_move_new(lm);
            let want = n.p.make(m);
            let got = read_board(&s1);
            let kind = if n.p.is_ep_capture(m) {
                "ep"
            } else if n.p.is_castle(m) {
                "castle"
            } else if m.promo != 0 {
                "promotion"
            } else if n.p.sq[m.to as usize] != 0 {
                "capture"
            } else {
                "quiet"
            };
            rep.count(&format!("ev_succ_{}", kind));
            if got.sq[..] != want.sq[..] {
                rep.violation(&format!("C02/successor/placement/{}", kind), format!("fen={} move={} got {} want {}", fen, m.uci(), got.placement_fen(), want.placement_fen()));
            }
            if got.stm != want.stm {
                rep.violation("C02/successor/side", format!("fen={} move={} side to move not flipped", fen, m.uci()));
            }
            if got.castle != want.castle {
                rep.violation(
                    &format!("C02/successor/rights/{}", kind),
                    format!("fen={} move={} rights got {:04b} want {:04b} (bits qkQK)", fen, m.uci(), got.castle, want.castle),
                );
            }
            // e.p. band
            let lib_ep = s1.en_passant();
            if want.ep_legal_capture_exists() {
                rep.count("ev_ep_must_record");
                if lib_ep.is_none() {
                    rep.violation("C02/ep/not-recorded-though-capturable", format!("fen={} move={}", fen, m.uci()));
                }
            }
            if let Some(es) = lib_ep {
                rep.count("ev_ep_recorded");
                if !n.p.is_double_push(m) {
                    rep.violation("C02/ep/recorded-without-double-push", format!("fen={} move={} recorded {}", fen, m.uci(), es));
                } else if es.to_int() != m.to {
                    rep.violation("C02/ep/wrong-square", format!("fen={} move={} recorded {}", fen, m.uci(), es));
                } else if !want.ep_pawn_adjacent() {
                    rep.violation("C02/ep/recorded-without-adjacent-pawn", format!("fen={} move={}", fen, m.uci()));
                } else if !want.ep_legal_capture_exists() {
                    rep.count("abst_ep_recorded_not_legal");
                }
            } else if n.p.is_double_push(m) && want.ep_pawn_adjacent() {
                rep.count("abst_ep_adjacent_not_recorded");
            }
            // second entry point, whatever the output held before
            let mut outs: Vec<(&'static str, Board)> = vec![("default", default_board)];
            if let Some(d) = self.dirty {
                outs.push(("dirty", d));
            }
            outs.push(("self", *b));
            for (name, t) in lookalikes.iter() {
                outs.push((name, *t));
            }
            for (what, mut out) in outs {
                rep.count("op_make_move");
                b.make_move(lm, &mut out);
                if out != s1 || observe(&out) != observe(&s1) || out.get_hash() != s1.get_hash() {
                    rep.violation(
                        &format!("C02/entry-points-differ/{}/{}", what, kind),
                        format!("fen={} move={} make_move(out pre-filled with {}) = {} but make_move_new = {}", fen, m.uci(), what, out, s1),
                    );
                }
            }
            {
                // exactly as the repository's own test does it
                let mut u = MaybeUninit::<Board>::uninit();
                rep.count("op_make_move_uninit");
                let r = unsafe {
                    b.make_move(lm, &mut *u.as_mut_ptr());
                    u.assume_init()
                };
                if r != s1 {
                    rep.violation(&format!("C02/entry-points-differ/uninit/{}", kind), format!("fen={} move={}", fen, m.uci()));
                }
            }
            if *b != before || observe(b) != before_obs {
                rep.violation("C02/source-modified", format!("fen={} move={}", fen, m.uci()));
            }
            self.dirty = Some(s1);
        }
        if n.ply == 1 {
            rep.sample(format!("{} : {} successors compared square by square", fen, n.legal.len()));
        }
    }
}

// ================================================================================================ C03

pub struct C03 {
    pub variant: Variant,
}

pub fn check_occupancy(b: &Board, fen: &str, rep: &mut Report) {
    let mut union = 0u64;
    let mut sum = 0u32;
    for pi in [Piece::Pawn, Piece::Knight, Piece::Bishop, Piece::Rook, Piece::Queen, Piece::King].iter() {
        let x = b.pieces(*pi).0;
        union |= x;
        sum += x.count_ones();
    }
    let comb = b.combined().0;
    if union != comb || sum != comb.count_ones() {
        rep.violation("C03/occupancy/pieces-not-partition", format!("fen={}", fen));
    }
    let w = b.color_combined(Color::White).0;
    let k = b.color_combined(Color::Black).0;
    if w & k != 0 || w | k != comb {
        rep.violation("C03/occupancy/colours-not-partition", format!("fen={}", fen));
    }
    for s in 0..64u8 {
        let sq = Square::new(s);
        let bit = 1u64 << s;
        let po = b.piece_on(sq);
        let co = b.color_on(sq);
        let on = comb & bit != 0;
        if po.is_some() != on || co.is_some() != on {
            rep.violation("C03/occupancy/per-square-vs-combined", format!("fen={} square {}", fen, sq));
        }
        if let Some(pi) = po {
            if b.pieces(pi).0 & bit == 0 {
                rep.violation("C03/occupancy/piece_on-vs-pieces", format!("fen={} square {}", fen, sq));
            }
        }
        if let Some(c) = co {
            if b.color_combined(c).0 & bit == 0 {
                rep.violation("C03/occupancy/color_on-vs-color_combined", format!("fen={} square {}", fen, sq));
            }
        }
    }
    for c in [Color::White, Color::Black].iter() {
        let ks = b.pieces(Piece::King).0 & b.color_combined(*c).0;
        if ks.count_ones() == 1 && b.king_square(*c).to_int() as u32 != ks.trailing_zeros() {
            rep.violation("C03/occupancy/king_square", format!("fen={}", fen));
        }
    }
}

pub fn check_c03_board(b: &Board, how: &str, rep: &mut Report) {
    // model position read back from the library's own per-square answers
    let p = read_board(b);
    let fen = format!("{} ({})", p.fen_with_ep(None), how);
    rep.eval();
    let ch = p.checkers();
    if b.checkers().0 != ch {
        let kind = if ch.count_ones() >= 2 { "double" } else { "single" };
        rep.violation(
            &format!("C03/checkers/{}/{}", how, kind),
            format!("fen={} checkers() = {} attackers of the king = {}", fen, set_to_string(b.checkers().0), set_to_string(ch)),
        );
    }
    if ch != 0 {
        rep.count("ev_in_check");
    }
    let own = b.color_combined(b.side_to_move()).0;
    let pins = p.pinned();
    if b.pinned().0 & own != pins {
        rep.violation(&format!("C03/pinned/{}", how), format!("fen={} pinned()&own = {} absolutely pinned = {}", fen, set_to_string(b.pinned().0 & own), set_to_string(pins)));
    }
    if pins != 0 {
        rep.count("ev_positions_with_pins");
    }
    check_occupancy(b, &fen, rep);
    // from-scratch twins
    let text = format!("{}", b);
    match Board::from_str(&text) {
        Ok(t) => {
            rep.count("op_fen_twin");
            if t != *b {
                let what = if t.checkers() != b.checkers() {
                    "checkers"
                } else if t.pinned() != b.pinned() {
                    "pinned"
                } else if t.get_hash() != b.get_hash() {
                    "hash"
                } else if t.en_passant() != b.en_passant() {
                    "ep"
                } else {
                    "other"
                };
                rep.violation(&format!("C03/twin-fen/not-equal/{}/{}", how, what), format!("fen={} rendered {} ; reparsed board differs ({})", fen, text, what));
            } else if observe(&t) != observe(b) {
                rep.violation(&format!("C03/twin-fen/observable/{}", how), format!("fen={}", fen));
            }
        }
        Err(e) => rep.violation(&format!("C03/twin-fen/unparsable/{}", how), format!("fen={} own rendering {} rejected: {:?}", fen, text, e)),
    }
    let bb: BoardBuilder = b.into();
    match Board::try_from(&bb) {
        Ok(t) => {
            rep.count("op_builder_twin");
            if t != *b || observe(&t) != observe(b) {
                rep.violation(&format!("C03/twin-builder/not-equal/{}", how), format!("fen={}", fen));
            }
        }
        Err(e) => rep.violation(&format!("C03/twin-builder/rejected/{}", how), format!("fen={} {:?}", fen, e)),
    }
}

impl NodeMon for C03 {
    fn wants_null_moves(&self) -> u64 {
        60
    }
    fn node(&mut self, n: &Node, rep: &mut Report, _rng: &mut Rng) {
        let how = if n.after_null {
            "after-null-move"
        } else if n.incremental {
            "after-move"
        } else {
            "parsed"
        };
        rep.seen(hash_bytes(&pack(n.p, lib_ep_file(n.b))));
        check_c03_board(n.b, how, rep);
        // the lock-stepped model must agree too (placement is C02's business; here only the derived info)
        if same_core(&read_board(n.b), n.p) {
            if n.b.checkers().0 != n.p.checkers() {
                rep.violation("C03/checkers/vs-history-model", format!("fen={}", n.p.fen()));
            }
        }
        if let Some((_, pp, m)) = n.prev {
            // which kind of move produced this node: lets the evidence show the incremental branches reached
            let k = if pp.is_castle(m) {
                "castle"
            } else if pp.is_ep_capture(m) {
                "ep"
            } else if m.promo != 0 {
                "promo"
            } else {
                "other"
            };
            if n.p.checkers() != 0 {
                rep.count(&format!("ev_check_after_{}", k));
                let moved_to = 1u64 << m.to;
                if n.p.checkers() & !moved_to != 0 {
                    rep.count("ev_discovered_check");
                }
            }
        }
        if n.ply == 3 {
            rep.sample(format!("{} checkers={} pinned={}", n.p.fen(), set_to_string(n.p.checkers()), set_to_string(n.p.pinned())));
        }
    }
}

// ================================================================================================ C05

pub struct C05 {
    pub prev: Option<(u8, [usize; 2], [usize; 2])>,
}

impl NodeMon for C05 {
    fn begin(&mut self, _s: &Start, _rep: &mut Report) {
        self.prev = None;
    }
    fn follows_library(&self) -> bool {
        true
    }
    fn node(&mut self, n: &Node, rep: &mut Report, _rng: &mut Rng) {
        let b = n.b;
        rep.eval();
        let p = read_board(b);
        rep.seen(hash_bytes(&pack(&p, lib_ep_file(b))));
        let fen = p.fen_with_ep(None);
        let hist = match n.prev {
            Some((_, pp, m)) => format!("{} after {} from {}", fen, m.uci(), pp.fen()),
            None => fen.clone(),
        };
        rep.count("op_is_sane");
        if !b.is_sane() {
            rep.violation("C05/is_sane-rejects-reachable-position", hist.clone());
        }
        for c in 0..2u8 {
            if p.count(pc(K, c)) != 1 {
                rep.violation("C05/king-count", hist.clone());
            }
        }
        if p.in_check(p.stm ^ 1) {
            rep.violation("C05/mover-left-in-check", hist.clone());
        }
        for s in (0..8u8).chain(56..64u8) {
            if kind(p.sq[s as usize]) == P {
                rep.violation("C05/pawn-on-back-rank", hist.clone());
            }
        }
        let men = [p.men(WHITE), p.men(BLACK)];
        let pawns = [p.count(pc(P, WHITE)), p.count(pc(P, BLACK))];
        // the previous position of this history is handed over by the walker (parent node)
        if let Some((pb, _, _)) = n.prev {
            let q = read_board(pb);
            let (rights, pmen, ppawns) = (q.castle, [q.men(WHITE), q.men(BLACK)], [q.count(pc(P, WHITE)), q.count(pc(P, BLACK))]);
            rep.count("ev_history_steps");
            if p.castle & !rights != 0 {
                rep.violation("C05/castling-right-reappeared", hist.clone());
            }
            if p.castle != rights {
                rep.count("ev_rights_lost");
            }
            for c in 0..2 {
                if men[c] > pmen[c] {
                    rep.violation("C05/men-count-grew", hist.clone());
                }
                if pawns[c] > ppawns[c] {
                    rep.violation("C05/pawn-count-grew", hist.clone());
                }
                if men[c] < pmen[c] {
                    rep.count("ev_men_decreased");
                }
                if pawns[c] < ppawns[c] && men[c] == pmen[c] {
                    rep.count("ev_promotions_seen");
                }
            }
        }
        self.prev = Some((p.castle, men, pawns));
        if n.ply == 40 {
            rep.sample(format!("ply 40 of a playout from tag {}: {}", n.tag, fen));
        }
    }
}

// ================================================================================================ C06

pub struct C06 {}

pub fn canonical_rights(c: u8) -> String {
    if c == 0 {
        return "-".to_string();
    }
    let mut s = String::new();
    for (b, ch) in [(WK, 'K'), (WQ, 'Q'), (BK, 'k'), (BQ, 'q')].iter() {
        if c & b != 0 {
            s.push(*ch);
        }
    }
    s
}

/// Independent lexer: checks that `text` is a well-formed six-field FEN describing `p`
/// (placement/side/rights exactly; e.p. field returned for the band check).
pub fn lex_fen(text: &str, p: &RPos, rep: &mut Report, ctx: &str) -> Option<Option<Sq>> {
    let t: Vec<&str> = text.split(' ').collect();
    if t.len() != 6 {
        rep.violation("C06/format/not-six-fields", format!("{} rendered {:?}", ctx, text));
        return None;
    }
    if t[0] != p.placement_fen() {
        // distinguish malformed from wrong
        let sig = if RPos::from_fen(&format!("{} w - - 0 1", t[0])).is_none() { "C06/format/placement-malformed" } else { "C06/fields/placement-wrong" };
        rep.violation(sig, format!("{} rendered {:?} expected placement {}", ctx, text, p.placement_fen()));
    }
    let side = if p.stm == WHITE { "w" } else { "b" };
    if t[1] != side {
        rep.violation("C06/fields/side", format!("{} rendered {:?}", ctx, text));
    }
    if t[2] != canonical_rights(p.castle) {
        rep.violation("C06/fields/castling", format!("{} rendered {:?} expected {}", ctx, text, canonical_rights(p.castle)));
    }
    let num = |s: &str| !s.is_empty() && s.bytes().all(|c| c.is_ascii_digit());
    if !num(t[4]) || !num(t[5]) || t[5] == "0" {
        rep.violation("C06/format/counters", format!("{} rendered {:?}", ctx, text));
    }
    if t[3] == "-" {
        return Some(None);
    }
    let e = t[3].as_bytes();
    let want_rank = if p.stm == WHITE { b'6' } else { b'3' };
    if e.len() != 2 || !(b'a'..=b'h').contains(&e[0]) || e[1] != want_rank {
        rep.violation("C06/ep/not-a-passed-over-square", format!("{} rendered {:?} (e.p. field must be '-' or a rank-{} square)", ctx, text, want_rank as char));
        return None;
    }
    Some(Some((e[1] - b'1') * 8 + (e[0] - b'a')))
}

pub fn builder_fields(bb: &BoardBuilder) -> (Vec<Option<(Piece, Color)>>, Color, u8, Option<Square>) {
    let mut v = vec![];
    for s in ALL_SQUARES.iter() {
        v.push(bb[*s]);
    }
    (v, bb.get_side_to_move(), rights_bits(bb.get_castle_rights(Color::White)) | rights_bits(bb.get_castle_rights(Color::Black)) << 2, bb.get_en_passant())
}

pub fn check_builder_fixed_point(bb: &BoardBuilder, what: &str, rep: &mut Report) {
    rep.count("op_builder_roundtrip");
    let s1 = format!("{}", bb);
    match BoardBuilder::from_str(&s1) {
        Ok(b2) => {
            let s2 = format!("{}", b2);
            if s1 != s2 {
                rep.violation(&format!("C06/builder/not-a-fixed-point/{}", what), format!("{:?} -> {:?}", s1, s2));
            }
            if builder_fields(bb) != builder_fields(&b2) {
                let (a, b) = (builder_fields(bb), builder_fields(&b2));
                let f = if a.0 != b.0 {
                    "pieces"
                } else if a.1 != b.1 {
                    "side"
                } else if a.2 != b.2 {
                    "rights"
                } else {
                    "ep"
                };
                rep.violation(&format!("C06/builder/field-changed/{}/{}", what, f), format!("{:?} reparsed with different {}", s1, f));
            }
        }
        Err(e) => rep.violation(&format!("C06/builder/own-text-rejected/{}", what), format!("{:?} {:?}", s1, e)),
    }
}

impl NodeMon for C06 {
    fn wants_null_moves(&self) -> u64 {
        20
    }
    fn node(&mut self, n: &Node, rep: &mut Report, rng: &mut Rng) {
        let b = n.b;
        rep.eval();
        let p = read_board(b);
        rep.seen(hash_bytes(&pack(&p, lib_ep_file(b))));
        let text = format!("{}", b);
        rep.count("op_board_display");
        let ctx = format!("position {} (history model {})", p.fen_with_ep(None), n.p.fen());
        if let Some(epf) = lex_fen(&text, &p, rep, &ctx) {
            // band: must be present whenever a legal e.p. capture exists; must be '-' unless last move was a double push
            let agree = same_core(&p, n.p);
            if agree {
                match epf {
                    None => {
                        if n.p.ep_legal_capture_exists() {
                            rep.violation("C06/ep/absent-though-capturable", format!("{} rendered {:?}", ctx, text));
                        }
                        if n.p.ep.is_some() {
                            rep.count("abst_ep_field_dash_after_double_push");
                        }
                    }
                    Some(e) => {
                        rep.count("ev_ep_field_present");
                        if n.p.ep.is_none() {
                            rep.violation("C06/ep/present-without-double-push", format!("{} rendered {:?}", ctx, text));
                        } else if n.p.ep != Some(e) {
                            rep.violation("C06/ep/wrong-square", format!("{} rendered {:?} expected {}", ctx, text, sq_name(n.p.ep.unwrap())));
                        }
                    }
                }
            }
        }
        // round trip of the library's own text
        match Board::from_str(&text) {
            Ok(t) => {
                rep.count("op_board_from_str");
                if t != *b {
                    rep.violation("C06/roundtrip/own-text-differs", format!("{} rendered {:?} reparsed {}", ctx, text, t));
                }
            }
            Err(e) => rep.violation("C06/roundtrip/own-text-rejected", format!("{} rendered {:?} {:?}", ctx, text, e)),
        }
        // the independent standard writer (e.p. square after every double push)
        if same_core(&p, n.p) {
            let std = n.p.fen();
            match Board::from_str(&std) {
                Ok(t) => {
                    rep.count("op_board_from_str_std");
                    if t != *b {
                        let what = if t.en_passant() != b.en_passant() { "ep" } else { "other" };
                        rep.violation(&format!("C06/standard-input/differs/{}", what), format!("standard FEN {:?} parses to {} but the position is {}", std, t, text));
                    }
                }
                Err(e) => rep.violation("C06/standard-input/rejected", format!("standard FEN {:?} {:?}", std, e)),
            }
            if n.p.ep.is_some() {
                rep.count("ev_std_fen_with_ep");
            }
            // the two counters of a standard FEN are not part of the position: any values a writer that keeps
            // them may have reached (draws are claimed, not automatic: clocks run past 100 and 150; long games
            // pass move 255) must be accepted and change nothing
            if rng.chance(1, 4) {
                let half = *rng.pick(&[0u64, 1, 7, 49, 50, 99, 100, 101, 149, 150, 151, 199, 255, 256, 300, 999, 5000, 65535, 65536]);
                let full = *rng.pick(&[1u64, 2, 30, 75, 128, 200, 254, 255, 256, 257, 300, 1000, 5949, 65535, 65536]);
                let half = if rng.chance(1, 3) { rng.below(120) as u64 } else { half };
                let with = format!("{} {} {}", &std[..std.len() - 4], half, full);
                rep.count("op_board_from_str_std_counters");
                match Board::from_str(&with) {
                    Ok(t) => {
                        if t != *b {
                            rep.violation("C06/standard-input/counters-change-the-position", format!("standard FEN {:?} parses to {} but the position is {}", with, t, text));
                        }
                    }
                    Err(e) => rep.violation("C06/standard-input/rejected/counters", format!("standard FEN {:?} {:?} (half-move clock {} / move number {})", with, e, half, full)),
                }
            }
        }
        // builder: validated state, then an arbitrary unvalidated one
        let bb: BoardBuilder = b.into();
        if format!("{}", bb) != text {
            rep.violation("C06/builder/display-differs-from-board", format!("{} vs {:?}", format!("{}", bb), text));
        }
        check_builder_fixed_point(&bb, "from-board", rep);
        if same_core(&p, n.p) && rng.chance(1, 3) {
            // the same state reached through the setters in another order must convert to the same board
            let sb = builder_from_model_shuffled(n.p, rng);
            rep.count("op_builder_shuffled_setters");
            // "the unvalidated builder renders ... the same way": the text of a builder state does not depend
            // on the order in which its setters were called
            let st = format!("{}", sb);
            if st != n.p.fen() {
                rep.violation("C06/builder/display-depends-on-setter-order", format!("builder state of {} (setters in another order) renders {:?}", n.p.fen(), st));
            }
            match Board::try_from(&sb) {
                // order (in)dependence of the setters is not part of C06's statement: counted only.
                // (C07 judges a valid position that a builder state fails to convert.)
                Ok(t) => {
                    if t != *b {
                        rep.count("info_setter_order_changes_the_position");
                    }
                }
                Err(_) => rep.count("info_setter_order_rejected"),
            }
            check_builder_fixed_point(&sb, "shuffled-setters", rep);
        }
        if rng.chance(1, 4) {
            let arb = arbitrary_builder(rng);
            check_builder_fixed_point(&arb, "arbitrary", rep);
        }
        if n.p.ep.is_some() && n.ply < 3 {
            rep.sample(format!("{} renders as {:?}", n.p.fen(), text));
        }
    }
}

/// any piece on any square, any side to move, rights and en-passant file - no validation whatsoever
pub fn arbitrary_builder(rng: &mut Rng) -> BoardBuilder {
    let mut bb = BoardBuilder::new();
    let n = match rng.below(4) {
        0 => rng.below(4),
        1 => rng.below(20),
        2 => rng.below(40),
        _ => rng.below(65),
    };
    let pieces = [Piece::Pawn, Piece::Knight, Piece::Bishop, Piece::Rook, Piece::Queen, Piece::King];
    for _ in 0..n {
        bb.piece(Square::new(rng.below(64) as u8), *rng.pick(&pieces), if rng.chance(1, 2) { Color::White } else { Color::Black });
    }
    bb.side_to_move(if rng.chance(1, 2) { Color::White } else { Color::Black });
    bb.castle_rights(Color::White, lib_rights(rng.below(4) as u8));
    bb.castle_rights(Color::Black, lib_rights(rng.below(4) as u8));
    if rng.chance(1, 2) {
        bb.en_passant(Some(File::from_index(rng.below(8))));
    }
    bb
}

// ================================================================================================ C08 / C09

pub struct HashMon {
    pub prop8: bool,
    pub prop9: bool,
    pub variant: Variant,
    /// position -> (get_hash, std hash)
    pub by_pos: HashMap<[u8; 34], (u64, u64)>,
    /// get_hash -> position
    pub by_hash: HashMap<u64, [u8; 34]>,
    pub log: Vec<u8>,
    pub cap: usize,
    pub log_cap_bytes: usize,
    /// XOR difference of the hashes of two positions that differ in one component -> which component;
    /// the same difference for two different components means their keys are not independent
    pub deltas: HashMap<u64, (String, String)>,
}

impl HashMon {
    pub fn new(prop8: bool, prop9: bool, variant: Variant, cap: usize) -> HashMon {
        HashMon { prop8, prop9, variant, by_pos: HashMap::new(), by_hash: HashMap::new(), log: vec![], cap, log_cap_bytes: 6_000_000 * 50, deltas: HashMap::new() }
    }

    /// record one observed board; `how` says how it was reached
    pub fn record(&mut self, b: &Board, how: &str, rep: &mut Report) {
        let p = read_board(b);
        let key = pack(&p, lib_ep_file(b));
        let h = b.get_hash();
        let sh = std_hash(b);
        rep.eval();
        rep.count(&format!("rec_{}", how));
        rep.seen(hash_bytes(&key));
        // the offline log is bounded per worker (50 bytes per record); the online maps keep judging beyond it
        if self.log.len() < self.log_cap_bytes {
            self.log.extend_from_slice(&key);
            self.log.extend_from_slice(&h.to_le_bytes());
            self.log.extend_from_slice(&sh.to_le_bytes());
        } else {
            rep.count("info_log_cap_reached");
        }
        if self.prop8 {
            match self.by_pos.get(&key) {
                Some(&(h0, sh0)) => {
                    rep.count("ev_position_seen_again");
                    if h0 != h {
                        rep.violation(
                            &format!("C08/path-dependence/{}", how),
                            format!("position {} reached via {} has hash {:016x}, earlier occurrence had {:016x}", describe_packed(&key), how, h, h0),
                        );
                    }
                    if sh0 != sh {
                        rep.violation("C08/std-hash-inconsistent-with-eq", format!("position {}", describe_packed(&key)));
                    }
                }
                None => {
                    if self.by_pos.len() < self.cap {
                        self.by_pos.insert(key, (h, sh));
                    }
                }
            }
        }
        if self.prop9 {
            match self.by_hash.get(&h) {
                Some(k0) => {
                    if *k0 != key {
                        rep.violation("C09/collision", format!("hash {:016x} shared by {} and {}", h, describe_packed(k0), describe_packed(&key)));
                    }
                }
                None => {
                    if self.by_hash.len() < self.cap {
                        self.by_hash.insert(h, key);
                    }
                }
            }
        }
    }

    pub fn flush(&mut self, out_dir: &Option<String>, shard: usize, rep: &mut Report) {
        if let Some(d) = out_dir {
            let path = format!("{}/hashlog_{}.bin", d, shard);
            match std::fs::write(&path, &self.log) {
                Ok(_) => rep.notes.push(format!("hashlog {} records={}", path, self.log.len() / 50)),
                Err(e) => rep.notes.push(format!("hashlog write failed: {}", e)),
            }
        }
        rep.add("log_records", (self.log.len() / 50) as u64);
    }

    fn twins(&mut self, n: &Node, rep: &mut Report) {
        let b = n.b;
        // from-scratch twins: own text, standard text, builder
        let text = format!("{}", b);
        if let Ok(t) = Board::from_str(&text) {
            if t == *b {
                rep.count("ev_twin_compared");
                if t.get_hash() != b.get_hash() {
                    rep.violation("C08/twin/fen-vs-incremental", format!("{} : parsed {:016x} incremental {:016x}", text, t.get_hash(), b.get_hash()));
                }
                if std_hash(&t) != std_hash(b) {
                    rep.violation("C08/std-hash-inconsistent-with-eq", format!("{}", text));
                }
            }
            self.record(&t, "fen", rep);
        }
        if let Ok(t) = Board::from_str(&n.p.fen()) {
            if read_board(&t) == read_board(b) && t.en_passant() == b.en_passant() {
                if t.get_hash() != b.get_hash() {
                    rep.violation("C08/twin/stdfen-vs-incremental", format!("{}", n.p.fen()));
                }
            }
        }
    }

    /// `a == b` (the library's own equality) must imply equal std hashes - also for the siblings of a
    /// position that differ from it in a single component, whatever the library's equality says about them
    fn eq_hash_law(&mut self, n: &Node, rep: &mut Report) {
        let b = n.b;
        let orig: BoardBuilder = b.into();
        let mut sibs: Vec<Board> = vec![];
        if b.en_passant().is_some() {
            let mut bb = orig;
            bb.en_passant(None);
            if let Ok(t) = Board::try_from(&bb) {
                sibs.push(t);
            }
        }
        if let Some(n1) = b.null_move() {
            if let Some(n2) = n1.null_move() {
                sibs.push(n2);
            }
            sibs.push(n1);
        }
        for c in [Color::White, Color::Black].iter() {
            if orig.get_castle_rights(*c) != chess::CastleRights::NoRights {
                let mut bb = orig;
                bb.castle_rights(*c, chess::CastleRights::NoRights);
                if let Ok(t) = Board::try_from(&bb) {
                    sibs.push(t);
                }
            }
        }
        for t in sibs {
            rep.count("ev_eq_hash_law_pairs");
            if t == *b && std_hash(&t) != std_hash(b) {
                rep.violation("C08/std-hash-inconsistent-with-eq", format!("{} == {} but their std hashes differ", b, t));
            }
        }
    }

    fn transpositions(&mut self, n: &Node, rep: &mut Report, rng: &mut Rng) {
        // commuting move pairs in both orders, out-and-back, null-move detours
        let b = n.b;
        let legal = n.legal;
        if legal.len() < 2 {
            return;
        }
        for _ in 0..3 {
            let m1 = *rng.pick(legal);
            let p1 = n.p.make(m1);
            let r1 = p1.legal_moves();
            if r1.is_empty() {
                continue;
            }
            let m2 = *rng.pick(&r1);
            let p2 = p1.make(m2);
            // our second move then their reply: try (m3 after m2) vs swapped order of our two moves
            let r2 = p2.legal_moves();
            if r2.is_empty() {
                continue;
            }
            let m3 = *rng.pick(&r2);
            let p3 = p2.make(m3);
            // order A: m1 m2 m3 ; order B: m3 m2 m1 (if legal) must meet in the same position when the moves commute
            if n.p.is_legal(m3) {
                let q1 = n.p.make(m3);
                if q1.is_legal(m2) {
                    let q2 = q1.make(m2);
                    if q2.is_legal(m1) {
                        let q3 = q2.make(m1);
                        if q3.sq[..] == p3.sq[..] && q3.castle == p3.castle {
                            let ba = b.make_move_new(lib_move(m1)).make_move_new(lib_move(m2)).make_move_new(lib_move(m3));
                            let bb = b.make_move_new(lib_move(m3)).make_move_new(lib_move(m2)).make_move_new(lib_move(m1));
                            rep.count("ev_commuting_orders");
                            self.record(&ba, "order-a", rep);
                            self.record(&bb, "order-b", rep);
                            if ba == bb && ba.get_hash() != bb.get_hash() {
                                rep.violation("C08/path-dependence/move-order", format!("{} : {} {} {} vs reversed", n.p.fen(), m1.uci(), m2.uci(), m3.uci()));
                            }
                        }
                    }
                }
            }
        }
        // out-and-back with a piece for both sides (4 plies) returns to the same placement
        let quiet: Vec<RMove> = legal.iter().cloned().filter(|m| kind(n.p.sq[m.from as usize]) != P && n.p.sq[m.to as usize] == 0 && !n.p.is_castle(*m)).collect();
        if !quiet.is_empty() {
            let m1 = *rng.pick(&quiet);
            let p1 = n.p.make(m1);
            let q2: Vec<RMove> = p1.legal_moves().into_iter().filter(|m| kind(p1.sq[m.from as usize]) != P && p1.sq[m.to as usize] == 0 && !p1.is_castle(*m)).collect();
            if !q2.is_empty() {
                let m2 = *rng.pick(&q2);
                let p2 = p1.make(m2);
                let back1 = RMove::new(m1.to, m1.from, 0);
                if p2.is_legal(back1) {
                    let p3 = p2.make(back1);
                    let back2 = RMove::new(m2.to, m2.from, 0);
                    if p3.is_legal(back2) {
                        let b4 = b.make_move_new(lib_move(m1)).make_move_new(lib_move(m2)).make_move_new(lib_move(back1)).make_move_new(lib_move(back2));
                        rep.count("ev_out_and_back");
                        self.record(&b4, "out-and-back", rep);
                    }
                }
            }
        }
        // null-move detour: null, null returns to the same position when there is no e.p. state
        if let Some(n1) = b.null_move() {
            self.record(&n1, "null", rep);
            if let Some(n2) = n1.null_move() {
                rep.count("ev_double_null");
                self.record(&n2, "null-null", rep);
            }
        }
    }

    /// `var` names the component (variable) that was changed, `what` the change itself.  The same hash
    /// difference for changes of two *different* components means that applying both gives a collision.
    fn note_delta(&mut self, delta: u64, var: String, what: String, rep: &mut Report) {
        rep.count("ev_component_deltas");
        if delta == 0 {
            return; // equal hashes of distinct positions are reported by the sibling / collision oracles
        }
        match self.deltas.get(&delta) {
            Some((v, w)) if *v != var => {
                rep.violation("C09/key-dependence", format!("changing [{}] and changing [{}] alter the hash by the same amount {:016x}: positions differing in both collide", w, what, delta));
            }
            Some(_) => {}
            None => {
                if self.deltas.len() < 200_000 {
                    self.deltas.insert(delta, (var, what));
                }
            }
        }
    }

    /// single-component hash differences, gathered through the builder from (almost) any position
    fn component_deltas(&mut self, n: &Node, rep: &mut Report, rng: &mut Rng) {
        let orig: BoardBuilder = n.b.into();
        let mut base = orig;
        base.en_passant(None);
        let b0 = match Board::try_from(&base) {
            Ok(b) => b,
            Err(_) => return,
        };
        let h0 = b0.get_hash();
        let stm = base.get_side_to_move();
        let stm_name = if stm == Color::White { "white" } else { "black" };
        // castling rights: every pair of values of one colour that the placement backs
        for c in [Color::White, Color::Black].iter() {
            let cname = if *c == Color::White { "white" } else { "black" };
            let cur = rights_bits(base.get_castle_rights(*c));
            for r in 0..4u8 {
                if r & !cur != 0 || r == cur {
                    continue;
                }
                let mut bb = base;
                bb.castle_rights(*c, lib_rights(r));
                if let Ok(t) = Board::try_from(&bb) {
                    // (the key of a rights value depends on whose move it is only through the colour argument)
                    self.note_delta(t.get_hash() ^ h0, format!("{} castling rights", cname), format!("{} castling rights {}->{}", cname, cur, r), rep);
                }
            }
        }
        // e.p. file none -> f
        let p = read_board(&b0);
        let mover = p.stm ^ 1;
        let r4 = if mover == WHITE { 3 } else { 4 };
        for f in 0..8i8 {
            if p.sq[mk(f, r4).unwrap() as usize] == pc(P, mover) {
                let mut bb = base;
                bb.en_passant(Some(File::from_index(f as usize)));
                if let Ok(t) = Board::try_from(&bb) {
                    if t.en_passant().is_some() {
                        self.note_delta(t.get_hash() ^ h0, "e.p. state".to_string(), format!("e.p. file {} with {} to move", (b'a' + f as u8) as char, stm_name), rep);
                    }
                }
            }
        }
        // side to move
        {
            let mut bb = base;
            bb.side_to_move(!stm);
            if let Ok(t) = Board::try_from(&bb) {
                self.note_delta(t.get_hash() ^ h0, "side to move".to_string(), "side to move".to_string(), rep);
            }
        }
        // one man added
        for _ in 0..6 {
            let s = rng.below(64) as u8;
            if p.sq[s as usize] != 0 {
                continue;
            }
            let k = *rng.pick(&[P, N, B, R, Q]);
            let c = rng.below(2) as u8;
            if k == P && (s >> 3 == 0 || s >> 3 == 7) {
                continue;
            }
            let mut bb = base;
            bb.piece(Square::new(s), lib_piece(k), lib_color(c));
            if let Ok(t) = Board::try_from(&bb) {
                self.note_delta(t.get_hash() ^ h0, format!("square {}", sq_name(s)), format!("{} {} on {}", if c == WHITE { "white" } else { "black" }, piece_char(pc(k, WHITE)), sq_name(s)), rep);
            }
        }
    }

    fn siblings(&mut self, n: &Node, rep: &mut Report, rng: &mut Rng) {
        let b = n.b;
        let base = read_board(b);
        let base_key = pack(&base, lib_ep_file(b));
        let h = b.get_hash();
        let mut try_sibling = |mon: &mut HashMon, bb: &BoardBuilder, kind: &str, rep: &mut Report| {
            if let Ok(t) = Board::try_from(bb) {
                let k = pack(&read_board(&t), lib_ep_file(&t));
                if k != base_key {
                    rep.count(&format!("sib_{}", kind));
                    rep.eval();
                    if t.get_hash() == h {
                        rep.violation(&format!("C09/sibling/{}", kind), format!("{} and its {} sibling {} share hash {:016x}", describe_packed(&base_key), kind, describe_packed(&k), h));
                    }
                    mon.record(&t, "sibling", rep);
                }
            }
        };
        let orig: BoardBuilder = b.into();
        // one man: remove / replace / move / add
        for _ in 0..4 {
            let s = Square::new(rng.below(64) as u8);
            let mut bb = orig;
            match (orig[s], rng.below(3)) {
                (Some((pi, _)), 0) if pi != Piece::King => {
                    bb.clear_square(s);
                    try_sibling(self, &bb, "piece-removed", rep);
                }
                (Some((pi, c)), 1) if pi != Piece::King => {
                    let np = *rng.pick(&[Piece::Pawn, Piece::Knight, Piece::Bishop, Piece::Rook, Piece::Queen]);
                    let nc = if rng.chance(1, 2) { c } else { !c };
                    bb.piece(s, np, nc);
                    try_sibling(self, &bb, "piece-replaced", rep);
                }
                (Some((pi, c)), _) => {
                    let d = Square::new(rng.below(64) as u8);
                    if orig[d].is_none() {
                        bb.clear_square(s);
                        bb.piece(d, pi, c);
                        try_sibling(self, &bb, "piece-moved", rep);
                    }
                }
                (None, _) => {
                    let np = *rng.pick(&[Piece::Pawn, Piece::Knight, Piece::Bishop, Piece::Rook, Piece::Queen]);
                    bb.piece(s, np, if rng.chance(1, 2) { Color::White } else { Color::Black });
                    try_sibling(self, &bb, "piece-added", rep);
                }
            }
        }
        // side to move
        {
            let mut bb = orig;
            bb.side_to_move(!orig.get_side_to_move());
            bb.en_passant(None);
            let mut o2 = orig;
            o2.en_passant(None);
            // compare like with like: both without e.p. state
            if let (Ok(t0), Ok(t1)) = (Board::try_from(&o2), Board::try_from(&bb)) {
                rep.count("sib_side");
                rep.eval();
                if t0.get_hash() == t1.get_hash() {
                    rep.violation("C09/sibling/side", format!("{} : same hash for either side to move", describe_packed(&base_key)));
                }
                self.record(&t1, "sibling", rep);
            }
        }
        // the position after passing the turn (side and possibly e.p. state differ): distinct, so hashes must differ
        if let Some(n1) = b.null_move() {
            rep.count("sib_null-move");
            rep.eval();
            if n1.get_hash() == h {
                rep.violation("C09/sibling/null-move", format!("{} and the position after null_move() share hash {:016x}", describe_packed(&base_key), h));
            }
            self.record(&n1, "sibling", rep);
        }
        // every subset of the castling rights that are present: all pairwise distinct positions
        {
            let w = rights_bits(orig.get_castle_rights(Color::White));
            let k = rights_bits(orig.get_castle_rights(Color::Black));
            let present = w | (k << 2);
            if present != 0 && present.count_ones() >= 2 {
                let mut boards: Vec<(u8, Board)> = vec![];
                for sub in 0..16u8 {
                    if sub & !present != 0 {
                        continue;
                    }
                    let mut bb = orig;
                    bb.castle_rights(Color::White, lib_rights(sub & 3));
                    bb.castle_rights(Color::Black, lib_rights(sub >> 2));
                    if let Ok(t) = Board::try_from(&bb) {
                        boards.push((sub, t));
                    }
                }
                for i in 0..boards.len() {
                    for j in 0..i {
                        rep.count("sib_castle-subsets");
                        rep.eval();
                        if boards[i].1.get_hash() == boards[j].1.get_hash() {
                            rep.violation(
                                "C09/sibling/castle-subsets",
                                format!("{} : rights {:04b} and {:04b} (bits qkQK) give the same hash", describe_packed(&base_key), boards[i].0, boards[j].0),
                            );
                        }
                    }
                    let t = boards[i].1;
                    self.record(&t, "sibling", rep);
                }
            }
        }
        // each castling right that is present
        for (c, bit, right) in [(Color::White, 1u8, "K"), (Color::White, 2, "Q"), (Color::Black, 1, "k"), (Color::Black, 2, "q")].iter() {
            let cur = rights_bits(orig.get_castle_rights(*c));
            if cur & bit != 0 {
                let mut bb = orig;
                bb.castle_rights(*c, lib_rights(cur & !bit));
                try_sibling(self, &bb, &format!("castle-{}", right), rep);
            }
        }
        // e.p. file present vs absent, and file vs other file
        let stm = base.stm;
        let mover = stm ^ 1;
        let r4 = if mover == WHITE { 3 } else { 4 };
        let mut files = vec![];
        for f in 0..8i8 {
            if base.sq[mk(f, r4).unwrap() as usize] == pc(P, mover) {
                let adj = [-1i8, 1].iter().any(|d| mk(f + d, r4).map_or(false, |t| base.sq[t as usize] == pc(P, stm)));
                if adj {
                    files.push(f as usize);
                }
            }
        }
        let mut boards: Vec<(Option<usize>, Board)> = vec![];
        {
            let mut bb = orig;
            bb.en_passant(None);
            if let Ok(t) = Board::try_from(&bb) {
                boards.push((None, t));
            }
        }
        for f in files.iter() {
            let mut bb = orig;
            bb.en_passant(Some(File::from_index(*f)));
            if let Ok(t) = Board::try_from(&bb) {
                if t.en_passant().is_some() {
                    boards.push((Some(*f), t));
                }
            }
        }
        for i in 0..boards.len() {
            for j in 0..i {
                let kind = if boards[j].0.is_none() { "ep-present-vs-absent" } else { "ep-file-vs-file" };
                rep.count(&format!("sib_{}", kind));
                rep.eval();
                if boards[i].1.get_hash() == boards[j].1.get_hash() {
                    rep.violation(&format!("C09/sibling/{}", kind), format!("{} : e.p. {:?} vs {:?} same hash", describe_packed(&base_key), boards[i].0, boards[j].0));
                }
            }
            let t = boards[i].1;
            self.record(&t, "sibling", rep);
        }
    }
}

impl NodeMon for HashMon {
    fn wants_null_moves(&self) -> u64 {
        30
    }
    fn node(&mut self, n: &Node, rep: &mut Report, rng: &mut Rng) {
        let how = if n.after_null {
            "after-null"
        } else if n.incremental {
            match n.prev {
                Some((_, pp, m)) => {
                    if pp.is_castle(m) {
                        "after-castle"
                    } else if pp.is_ep_capture(m) {
                        "after-ep"
                    } else if m.promo != 0 {
                        "after-promo"
                    } else if pp.sq[m.to as usize] != 0 {
                        "after-capture"
                    } else {
                        "after-quiet"
                    }
                }
                None => "incremental",
            }
        } else {
            "parsed"
        };
        self.record(n.b, how, rep);
        // second entry point reaches the same position: its hash must agree as well
        if let Some((pb, _, m)) = n.prev {
            let mut out = Board::default();
            pb.make_move(lib_move(m), &mut out);
            self.record(&out, "make_move", rep);
        }
        if self.prop8 {
            self.twins(n, rep);
            if n.b.en_passant().is_some() || rng.chance(1, 8) {
                self.eq_hash_law(n, rep);
            }
            let every = if self.variant == Variant::Miri { 8 } else { 4 };
            if rng.chance(1, every) {
                self.transpositions(n, rep, rng);
            }
        }
        if self.prop9 {
            let every = if self.variant == Variant::Miri { 8 } else { 6 };
            if rng.chance(1, every) {
                self.siblings(n, rep, rng);
                self.component_deltas(n, rep, rng);
            }
        }
        if n.ply == 5 {
            rep.sample(format!("{} get_hash={:016x}", n.p.fen(), n.b.get_hash()));
        }
    }
}

// ================================================================================================ C17

pub struct C17 {
    /// incrementally advanced mirror boards, keyed by the position they mirror
    pub inc_v: Option<([u8; 34], Board)>,
    pub inc_h: Option<([u8; 34], Board)>,
}

#[derive(PartialEq, Eq, Debug)]
pub struct SymObs {
    pos: RPos,
    ep_raw: Option<u8>,
    checkers: u64,
    pinned_own: u64,
    combined: u64,
    white: u64,
    black: u64,
    pieces: [u64; 6],
    status: u8,
    moves: Vec<RMove>,
}

pub fn sym_obs(b: &Board) -> SymObs {
    let o = observe(b);
    let own = b.color_combined(b.side_to_move()).0;
    let mut moves: Vec<RMove> = MoveGen::new_legal(b).map(model_move).collect();
    moves.sort();
    SymObs {
        pos: o.pos,
        ep_raw: o.ep_raw,
        checkers: o.checkers,
        pinned_own: o.pinned & own,
        combined: o.combined,
        white: o.white,
        black: o.black,
        pieces: o.pieces,
        status: match b.status() {
            BoardStatus::Ongoing => 0,
            BoardStatus::Stalemate => 1,
            BoardStatus::Checkmate => 2,
        },
        moves,
    }
}

pub fn map_obs(o: &SymObs, vertical: bool) -> SymObs {
    let ms = |x: u64| if vertical { vflip_set(x) } else { hflip_set(x) };
    let mq = |s: u8| if vertical { vflip(s) } else { hflip(s) };
    let mut moves: Vec<RMove> = o.moves.iter().map(|m| RMove::new(mq(m.from), mq(m.to), m.promo)).collect();
    moves.sort();
    let mut pos = if vertical { o.pos.mirror_v() } else { o.pos.mirror_h() };
    if !vertical {
        pos.castle = o.pos.castle; // only used when castle == 0
    }
    SymObs {
        pos,
        ep_raw: o.ep_raw.map(mq),
        checkers: ms(o.checkers),
        pinned_own: ms(o.pinned_own),
        combined: ms(o.combined),
        white: if vertical { ms(o.black) } else { ms(o.white) },
        black: if vertical { ms(o.white) } else { ms(o.black) },
        pieces: [ms(o.pieces[0]), ms(o.pieces[1]), ms(o.pieces[2]), ms(o.pieces[3]), ms(o.pieces[4]), ms(o.pieces[5])],
        status: o.status,
        moves,
    }
}

fn diff_obs(a: &SymObs, b: &SymObs) -> &'static str {
    if a.moves != b.moves {
        "legal-moves"
    } else if a.status != b.status {
        "status"
    } else if a.checkers != b.checkers {
        "checkers"
    } else if a.pinned_own != b.pinned_own {
        "pinned"
    } else if a.pos.sq[..] != b.pos.sq[..] {
        "placement"
    } else if a.pos.castle != b.pos.castle {
        "rights"
    } else if a.ep_raw != b.ep_raw {
        "ep"
    } else {
        "other"
    }
}

impl C17 {
    fn one(&mut self, n: &Node, vertical: bool, rep: &mut Report, rng: &mut Rng) {
        let axis = if vertical { "colour" } else { "left-right" };
        let mp = if vertical { n.p.mirror_v() } else { n.p.mirror_h() };
        let mb = match Board::from_str(&mp.fen()) {
            Ok(x) => x,
            Err(e) => {
                rep.violation(&format!("C17/{}/mirror-rejected", axis), format!("{} accepted but mirror {} rejected {:?}", n.p.fen(), mp.fen(), e));
                return;
            }
        };
        rep.eval();
        rep.count(&format!("ev_pairs_{}", axis));
        let o = sym_obs(n.b);
        let om = sym_obs(&mb);
        let want = map_obs(&o, vertical);
        if want != om {
            let d = diff_obs(&want, &om);
            rep.violation(&format!("C17/{}/position/{}", axis, d), format!("{} vs mirror {} differ in {}", n.p.fen(), mp.fen(), d));
            return;
        }
        // every successor (sampled when many)
        let mq = |s: u8| if vertical { vflip(s) } else { hflip(s) };
        let mut ms: Vec<RMove> = n.legal.to_vec();
        if ms.len() > 12 {
            ms.sort_by_key(|m| !(n.p.is_ep_capture(*m) || n.p.is_castle(*m) || m.promo != 0 || n.p.is_double_push(*m)));
            let mut rest = ms.split_off(6);
            rng.shuffle(&mut rest);
            ms.extend(rest.into_iter().take(6));
        }
        for m in ms {
            let mm = RMove::new(mq(m.from), mq(m.to), m.promo);
            if !n.b.legal(lib_move(m)) || !mb.legal(lib_move(mm)) {
                continue; // move-set disagreement is already reported above / belongs to C01
            }
            let s1 = sym_obs(&n.b.make_move_new(lib_move(m)));
            let s2 = sym_obs(&mb.make_move_new(lib_move(mm)));
            rep.count(&format!("ev_successors_{}", axis));
            let w = map_obs(&s1, vertical);
            if w != s2 {
                let d = diff_obs(&w, &s2);
                let kind = if n.p.is_ep_capture(m) {
                    "ep"
                } else if n.p.is_castle(m) {
                    "castle"
                } else if m.promo != 0 {
                    "promotion"
                } else if n.p.is_double_push(m) {
                    "double-push"
                } else {
                    "other"
                };
                rep.violation(&format!("C17/{}/successor/{}/{}", axis, kind, d), format!("{} move {} vs mirror {} move {} differ in {}", n.p.fen(), m.uci(), mp.fen(), mm.uci(), d));
            }
        }
        // lock-step incremental mirror (parallel playout): advance the mirror of the parent position
        // by the mirrored move; in a linear playout that mirror was itself reached incrementally
        let here = pack(n.p, n.p.ep);
        let inc = if vertical { &mut self.inc_v } else { &mut self.inc_h };
        let mut next = None;
        if let Some((_, pp, m)) = n.prev {
            let parent_key = pack(pp, pp.ep);
            let parent_mirror = match inc.as_ref() {
                Some((k, bm)) if *k == parent_key => {
                    rep.count(&format!("ev_lockstep_chain_{}", axis));
                    Some(*bm)
                }
                _ => {
                    let pm = if vertical { pp.mirror_v() } else { pp.mirror_h() };
                    Board::from_str(&pm.fen()).ok()
                }
            };
            if let Some(pmb) = parent_mirror {
                let mm = lib_move(RMove::new(mq(m.from), mq(m.to), m.promo));
                if pmb.legal(mm) {
                    next = Some(pmb.make_move_new(mm));
                }
            }
        }
        if let Some(im) = next {
            rep.count(&format!("ev_lockstep_{}", axis));
            let oi = sym_obs(&im);
            if oi != want {
                let d = diff_obs(&want, &oi);
                rep.violation(&format!("C17/{}/lockstep/{}", axis, d), format!("{} : parallel playout on the mirror diverged in {}", n.p.fen(), d));
            }
            *inc = Some((here, im));
        } else {
            *inc = Some((here, mb));
        }
    }
}

impl NodeMon for C17 {
    fn begin(&mut self, _s: &Start, _rep: &mut Report) {
        self.inc_v = None;
        self.inc_h = None;
    }
    fn node(&mut self, n: &Node, rep: &mut Report, rng: &mut Rng) {
        if n.diverged {
            return;
        }
        rep.seen(hash_bytes(&pack(n.p, n.p.ep)));
        if n.ply == 0 {
            self.inc_v = None;
            self.inc_h = None;
        }
        self.one(n, true, rep, rng);
        if n.p.castle == 0 {
            self.one(n, false, rep, rng);
        } else {
            self.inc_h = None;
        }
        if n.ply == 2 {
            rep.sample(format!("{} <-> {}", n.p.fen(), n.p.mirror_v().fen()));
        }
    }
}

// ================================================================================================ C18

pub struct C18 {}

impl NodeMon for C18 {
    fn wants_null_moves(&self) -> u64 {
        150
    }
    fn node(&mut self, n: &Node, rep: &mut Report, _rng: &mut Rng) {
        let b = n.b;
        let p = read_board(b);
        rep.eval();
        rep.seen(hash_bytes(&pack(&p, lib_ep_file(b))));
        rep.count("op_null_move");
        let in_check = p.in_check(p.stm);
        let before = *b;
        let r = b.null_move();
        if *b != before {
            rep.violation("C18/source-modified", p.fen());
        }
        match r {
            None => {
                rep.count("ev_refused");
                if !in_check {
                    rep.violation("C18/refused-though-not-in-check", format!("{}", p.fen_with_ep(None)));
                }
            }
            Some(nb) => {
                rep.count("ev_passed");
                if b.en_passant().is_some() {
                    rep.count("ev_passed_with_ep_state");
                }
                if n.after_null {
                    rep.count("ev_null_after_null");
                }
                if in_check {
                    rep.violation("C18/accepted-in-check", format!("{}", p.fen_with_ep(None)));
                    return;
                }
                let q = read_board(&nb);
                if q.sq[..] != p.sq[..] {
                    rep.violation("C18/placement-changed", p.fen());
                }
                if q.castle != p.castle {
                    rep.violation("C18/rights-changed", p.fen());
                }
                if q.stm == p.stm {
                    rep.violation("C18/side-not-flipped", p.fen());
                }
                if nb.en_passant().is_some() {
                    rep.violation("C18/ep-state-survives", p.fen());
                }
                let mut tw = p.clone();
                tw.stm ^= 1;
                tw.ep = None;
                match Board::from_str(&tw.fen()) {
                    Ok(t) => {
                        rep.count("ev_twin_compared");
                        if t.checkers() != nb.checkers() {
                            rep.violation("C18/twin/checkers", format!("{} : null move gives checkers {} from scratch {}", p.fen(), set_to_string(nb.checkers().0), set_to_string(t.checkers().0)));
                        }
                        if t.pinned() != nb.pinned() {
                            rep.violation("C18/twin/pinned", format!("{} : null move gives pinned {} from scratch {}", p.fen(), set_to_string(nb.pinned().0), set_to_string(t.pinned().0)));
                        }
                        if t.get_hash() != nb.get_hash() {
                            rep.violation("C18/twin/hash", p.fen());
                        }
                        if t != nb {
                            rep.violation("C18/twin/not-equal", p.fen());
                        }
                    }
                    Err(_) => {
                        // the flipped position can be invalid only if the side that passed is in check - excluded above
                        rep.violation("C18/twin/rejected", tw.fen());
                    }
                }
                if nb.pinned().0 != 0 {
                    rep.count("ev_null_result_has_pins");
                }
            }
        }
        if n.ply == 4 {
            rep.sample(format!("{} null_move -> {}", p.fen_with_ep(None), r.map(|x| format!("{}", x)).unwrap_or("refused".into())));
        }
    }
}

#[allow(dead_code)]
fn _unused(_: BitBoard) {}
