//! Independent mailbox reference model of the FIDE Laws of Chess.
//!
//! Deliberately naive: a 64-byte mailbox, (file, rank) deltas, pseudo-legal generation by walking
//! rays and legality by *making the move and asking whether the mover's king is attacked*.
//! It shares no code, table or representation with the library under test.  `u64` values are used
//! only as plain *sets of squares* for results (bit i = square i, a1 = 0, h8 = 63).

pub type Sq = u8;

pub const P: u8 = 1;
pub const N: u8 = 2;
pub const B: u8 = 3;
pub const R: u8 = 4;
pub const Q: u8 = 5;
pub const K: u8 = 6;
pub const WHITE: u8 = 0;
pub const BLACK: u8 = 1;

pub const WK: u8 = 1;
pub const WQ: u8 = 2;
pub const BK: u8 = 4;
pub const BQ: u8 = 8;

#[derive(Clone, Copy, PartialEq, Eq, Hash, Debug, PartialOrd, Ord)]
pub struct RMove {
    pub from: Sq,
    pub to: Sq,
    /// 0 = none, otherwise N, B, R, Q
    pub promo: u8,
}

impl RMove {
    pub fn new(from: Sq, to: Sq, promo: u8) -> RMove {
        RMove { from, to, promo }
    }
    pub fn uci(&self) -> String {
        let mut s = String::new();
        s.push_str(&sq_name(self.from));
        s.push_str(&sq_name(self.to));
        match self.promo {
            N => s.push('n'),
            B => s.push('b'),
            R => s.push('r'),
            Q => s.push('q'),
            _ => {}
        }
        s
    }
}

pub fn sq_name(s: Sq) -> String {
    let mut t = String::new();
    t.push((b'a' + (s & 7)) as char);
    t.push((b'1' + (s >> 3)) as char);
    t
}

#[derive(Clone, PartialEq, Eq, Hash, Debug)]
pub struct RPos {
    /// 0 empty; kind (1..6) | 8 if black
    pub sq: [u8; 64],
    pub stm: u8,
    /// WK | WQ | BK | BQ
    pub castle: u8,
    /// square passed over by the pawn that just made a double step (recorded after EVERY double push)
    pub ep: Option<Sq>,
}

#[inline]
pub fn kind(p: u8) -> u8 {
    p & 7
}
#[inline]
pub fn color(p: u8) -> u8 {
    p >> 3
}
#[inline]
pub fn pc(k: u8, c: u8) -> u8 {
    k | (c << 3)
}
#[inline]
pub fn fr(s: Sq) -> (i8, i8) {
    ((s & 7) as i8, (s >> 3) as i8)
}
#[inline]
pub fn mk(f: i8, r: i8) -> Option<Sq> {
    if f >= 0 && f < 8 && r >= 0 && r < 8 {
        Some((r * 8 + f) as u8)
    } else {
        None
    }
}

pub const KN: [(i8, i8); 8] = [(1, 2), (2, 1), (2, -1), (1, -2), (-1, -2), (-2, -1), (-2, 1), (-1, 2)];
pub const KG: [(i8, i8); 8] = [(1, 0), (1, 1), (0, 1), (-1, 1), (-1, 0), (-1, -1), (0, -1), (1, -1)];
pub const DIAG: [(i8, i8); 4] = [(1, 1), (-1, 1), (-1, -1), (1, -1)];
pub const ORTH: [(i8, i8); 4] = [(1, 0), (0, 1), (-1, 0), (0, -1)];

#[derive(Clone, Copy, PartialEq, Eq, Debug)]
pub enum RStatus {
    Ongoing,
    Stalemate,
    Checkmate,
}

impl RPos {
    pub fn empty() -> RPos {
        RPos { sq: [0; 64], stm: WHITE, castle: 0, ep: None }
    }

    pub fn startpos() -> RPos {
        RPos::from_fen("rnbqkbnr/pppppppp/8/8/8/8/PPPPPPPP/RNBQKBNR w KQkq - 0 1").unwrap()
    }

    pub fn king_sq(&self, c: u8) -> Option<Sq> {
        (0..64u8).find(|&s| self.sq[s as usize] == pc(K, c))
    }

    pub fn count(&self, piece: u8) -> usize {
        self.sq.iter().filter(|&&x| x == piece).count()
    }

    pub fn men(&self, c: u8) -> usize {
        self.sq.iter().filter(|&&x| x != 0 && color(x) == c).count()
    }

    /// Set of squares holding a piece of colour `c` that attacks square `s`.
    pub fn attackers(&self, s: Sq, c: u8) -> u64 {
        let mut v = 0u64;
        let (f, r) = fr(s);
        for d in KN.iter() {
            if let Some(t) = mk(f + d.0, r + d.1) {
                if self.sq[t as usize] == pc(N, c) {
                    v |= 1 << t;
                }
            }
        }
        for d in KG.iter() {
            if let Some(t) = mk(f + d.0, r + d.1) {
                if self.sq[t as usize] == pc(K, c) {
                    v |= 1 << t;
                }
            }
        }
        // a pawn of colour c attacks s if it stands one rank "behind" s (from its own point of view)
        let pr = if c == WHITE { r - 1 } else { r + 1 };
        for df in [-1i8, 1].iter() {
            if let Some(t) = mk(f + df, pr) {
                if self.sq[t as usize] == pc(P, c) {
                    v |= 1 << t;
                }
            }
        }
        for (dirs, a) in [(&DIAG, B), (&ORTH, R)].iter() {
            for d in dirs.iter() {
                let (mut cf, mut cr) = (f + d.0, r + d.1);
                while let Some(t) = mk(cf, cr) {
                    let p = self.sq[t as usize];
                    if p != 0 {
                        if color(p) == c && (kind(p) == *a || kind(p) == Q) {
                            v |= 1 << t;
                        }
                        break;
                    }
                    cf += d.0;
                    cr += d.1;
                }
            }
        }
        v
    }

    pub fn attacked(&self, s: Sq, by: u8) -> bool {
        self.attackers(s, by) != 0
    }

    /// Is the king of colour `c` attacked?  (false if there is no such king)
    pub fn in_check(&self, c: u8) -> bool {
        match self.king_sq(c) {
            Some(k) => self.attacked(k, c ^ 1),
            None => false,
        }
    }

    /// Enemy men attacking the king of the side to move.
    pub fn checkers(&self) -> u64 {
        match self.king_sq(self.stm) {
            Some(k) => self.attackers(k, self.stm ^ 1),
            None => 0,
        }
    }

    /// Men of the side to move that are absolutely pinned to their king: the only man between the
    /// king and an enemy slider that moves along that line.
    pub fn pinned(&self) -> u64 {
        let c = self.stm;
        let k = match self.king_sq(c) {
            Some(k) => k,
            None => return 0,
        };
        let (f, r) = fr(k);
        let mut out = 0u64;
        for (dirs, a) in [(&DIAG, B), (&ORTH, R)].iter() {
            for d in dirs.iter() {
                let (mut cf, mut cr) = (f + d.0, r + d.1);
                let mut cand: Option<Sq> = None;
                while let Some(t) = mk(cf, cr) {
                    let p = self.sq[t as usize];
                    if p != 0 {
                        match cand {
                            None => {
                                if color(p) == c {
                                    cand = Some(t);
                                } else {
                                    break;
                                }
                            }
                            Some(x) => {
                                if color(p) != c && (kind(p) == *a || kind(p) == Q) {
                                    out |= 1 << x;
                                }
                                break;
                            }
                        }
                    }
                    cf += d.0;
                    cr += d.1;
                }
            }
        }
        out
    }

    fn push_pawn(v: &mut Vec<RMove>, from: Sq, to: Sq, last: i8) {
        if (to >> 3) as i8 == last {
            for pr in [Q, N, R, B].iter() {
                v.push(RMove { from, to, promo: *pr });
            }
        } else {
            v.push(RMove { from, to, promo: 0 });
        }
    }

    /// Pseudo-legal moves (own king may be left in check), castling fully by the letter of the law.
    pub fn pseudo(&self) -> Vec<RMove> {
        let mut v = Vec::with_capacity(48);
        let c = self.stm;
        for s in 0..64u8 {
            let p = self.sq[s as usize];
            if p == 0 || color(p) != c {
                continue;
            }
            let (f, r) = fr(s);
            match kind(p) {
                P => {
                    let dr: i8 = if c == WHITE { 1 } else { -1 };
                    let start = if c == WHITE { 1 } else { 6 };
                    let last = if c == WHITE { 7 } else { 0 };
                    if let Some(t) = mk(f, r + dr) {
                        if self.sq[t as usize] == 0 {
                            RPos::push_pawn(&mut v, s, t, last);
                            if r == start {
                                if let Some(t2) = mk(f, r + 2 * dr) {
                                    if self.sq[t2 as usize] == 0 {
                                        v.push(RMove { from: s, to: t2, promo: 0 });
                                    }
                                }
                            }
                        }
                    }
                    for df in [-1i8, 1].iter() {
                        if let Some(t) = mk(f + df, r + dr) {
                            let q = self.sq[t as usize];
                            if q != 0 && color(q) != c {
                                RPos::push_pawn(&mut v, s, t, last);
                            } else if q == 0 && self.ep == Some(t) {
                                // the pawn to be captured must really be there
                                let victim = mk(f + df, r).unwrap();
                                if self.sq[victim as usize] == pc(P, c ^ 1) {
                                    v.push(RMove { from: s, to: t, promo: 0 });
                                }
                            }
                        }
                    }
                }
                N => {
                    for d in KN.iter() {
                        if let Some(t) = mk(f + d.0, r + d.1) {
                            let q = self.sq[t as usize];
                            if q == 0 || color(q) != c {
                                v.push(RMove { from: s, to: t, promo: 0 });
                            }
                        }
                    }
                }
                K => {
                    for d in KG.iter() {
                        if let Some(t) = mk(f + d.0, r + d.1) {
                            let q = self.sq[t as usize];
                            if q == 0 || color(q) != c {
                                v.push(RMove { from: s, to: t, promo: 0 });
                            }
                        }
                    }
                    let home: Sq = if c == WHITE { 4 } else { 60 };
                    if s == home && !self.attacked(s, c ^ 1) {
                        let (kbit, qbit) = if c == WHITE { (WK, WQ) } else { (BK, BQ) };
                        let rook = pc(R, c);
                        let e = |x: Sq| self.sq[x as usize] == 0;
                        let safe = |x: Sq| !self.attacked(x, c ^ 1);
                        if self.castle & kbit != 0
                            && self.sq[(home + 3) as usize] == rook
                            && e(home + 1)
                            && e(home + 2)
                            && safe(home + 1)
                            && safe(home + 2)
                        {
                            v.push(RMove { from: s, to: home + 2, promo: 0 });
                        }
                        if self.castle & qbit != 0
                            && self.sq[(home - 4) as usize] == rook
                            && e(home - 1)
                            && e(home - 2)
                            && e(home - 3)
                            && safe(home - 1)
                            && safe(home - 2)
                        {
                            v.push(RMove { from: s, to: home - 2, promo: 0 });
                        }
                    }
                }
                k => {
                    let mut dirs: Vec<(i8, i8)> = Vec::with_capacity(8);
                    if k == B || k == Q {
                        dirs.extend_from_slice(&DIAG);
                    }
                    if k == R || k == Q {
                        dirs.extend_from_slice(&ORTH);
                    }
                    for d in dirs.iter() {
                        let (mut cf, mut cr) = (f + d.0, r + d.1);
                        while let Some(t) = mk(cf, cr) {
                            let q = self.sq[t as usize];
                            if q == 0 {
                                v.push(RMove { from: s, to: t, promo: 0 });
                            } else {
                                if color(q) != c {
                                    v.push(RMove { from: s, to: t, promo: 0 });
                                }
                                break;
                            }
                            cf += d.0;
                            cr += d.1;
                        }
                    }
                }
            }
        }
        v
    }

    pub fn legal_moves(&self) -> Vec<RMove> {
        let c = self.stm;
        self.pseudo().into_iter().filter(|m| !self.make(*m).in_check(c)).collect()
    }

    pub fn has_legal_move(&self) -> bool {
        let c = self.stm;
        self.pseudo().into_iter().any(|m| !self.make(m).in_check(c))
    }

    pub fn is_legal(&self, m: RMove) -> bool {
        self.legal_moves().contains(&m)
    }

    pub fn is_ep_capture(&self, m: RMove) -> bool {
        kind(self.sq[m.from as usize]) == P && (m.from & 7) != (m.to & 7) && self.sq[m.to as usize] == 0
    }

    pub fn is_castle(&self, m: RMove) -> bool {
        kind(self.sq[m.from as usize]) == K && ((m.from & 7) as i8 - (m.to & 7) as i8).abs() == 2
    }

    pub fn is_capture(&self, m: RMove) -> bool {
        self.sq[m.to as usize] != 0 || self.is_ep_capture(m)
    }

    pub fn is_double_push(&self, m: RMove) -> bool {
        kind(self.sq[m.from as usize]) == P && ((m.from >> 3) as i8 - (m.to >> 3) as i8).abs() == 2
    }

    /// Apply a (pseudo-)legal move.
    pub fn make(&self, m: RMove) -> RPos {
        let mut n = self.clone();
        let p = self.sq[m.from as usize];
        let c = self.stm;
        n.ep = None;
        if self.is_ep_capture(m) {
            let cap = if c == WHITE { m.to - 8 } else { m.to + 8 };
            n.sq[cap as usize] = 0;
        }
        if self.is_castle(m) {
            if m.to > m.from {
                n.sq[(m.from + 1) as usize] = self.sq[(m.from + 3) as usize];
                n.sq[(m.from + 3) as usize] = 0;
            } else {
                n.sq[(m.from - 1) as usize] = self.sq[(m.from - 4) as usize];
                n.sq[(m.from - 4) as usize] = 0;
            }
        }
        n.sq[m.from as usize] = 0;
        n.sq[m.to as usize] = if m.promo != 0 { pc(m.promo, c) } else { p };
        if self.is_double_push(m) {
            n.ep = Some((m.from + m.to) / 2);
        }
        // a right is lost when the king or that rook leaves its home square, or the rook is captured there
        for s in [m.from, m.to].iter() {
            match *s {
                4 => n.castle &= !(WK | WQ),
                60 => n.castle &= !(BK | BQ),
                7 => n.castle &= !WK,
                0 => n.castle &= !WQ,
                63 => n.castle &= !BK,
                56 => n.castle &= !BQ,
                _ => {}
            }
        }
        n.stm = c ^ 1;
        n
    }

    /// pass the turn
    pub fn null(&self) -> RPos {
        let mut n = self.clone();
        n.stm ^= 1;
        n.ep = None;
        n
    }

    pub fn status(&self) -> RStatus {
        if self.has_legal_move() {
            RStatus::Ongoing
        } else if self.in_check(self.stm) {
            RStatus::Checkmate
        } else {
            RStatus::Stalemate
        }
    }

    /// Does a *legal* en-passant capture exist?
    pub fn ep_legal_capture_exists(&self) -> bool {
        match self.ep {
            None => false,
            Some(e) => self.legal_moves().iter().any(|m| m.to == e && self.is_ep_capture(*m)),
        }
    }

    /// Is there an enemy pawn (of the side to move) standing beside the pawn that just double-pushed?
    pub fn ep_pawn_adjacent(&self) -> bool {
        match self.ep {
            None => false,
            Some(e) => {
                let c = self.stm;
                let pawn_sq = if c == WHITE { e - 8 } else { e + 8 };
                let (f, r) = fr(pawn_sq);
                [-1i8, 1].iter().any(|df| mk(f + df, r).map_or(false, |t| self.sq[t as usize] == pc(P, c)))
            }
        }
    }

    /// The validity predicate of the properties' quantifier ("valid position").
    pub fn valid(&self) -> bool {
        self.valid_reason().is_none()
    }

    pub fn valid_reason(&self) -> Option<&'static str> {
        for c in 0..2u8 {
            if self.count(pc(K, c)) != 1 {
                return Some("king count");
            }
            if self.men(c) > 16 {
                return Some("more than 16 men");
            }
            if self.count(pc(P, c)) > 8 {
                return Some("more than 8 pawns");
            }
        }
        for s in (0..8u8).chain(56..64u8) {
            if kind(self.sq[s as usize]) == P {
                return Some("pawn on back rank");
            }
        }
        if self.in_check(self.stm ^ 1) {
            return Some("side not to move in check");
        }
        let need = |bit: u8, ksq: usize, rsq: usize, c: u8| -> bool {
            self.castle & bit == 0 || (self.sq[ksq] == pc(K, c) && self.sq[rsq] == pc(R, c))
        };
        if !(need(WK, 4, 7, WHITE) && need(WQ, 4, 0, WHITE) && need(BK, 60, 63, BLACK) && need(BQ, 60, 56, BLACK)) {
            return Some("castling right without king/rook at home");
        }
        if let Some(e) = self.ep {
            // the side that just moved is stm^1; its pawn stands in front of e, e and the origin square are empty
            let mover = self.stm ^ 1;
            let (f, r) = fr(e);
            let want_rank = if mover == WHITE { 2 } else { 5 };
            if r != want_rank {
                return Some("ep rank");
            }
            let (pawn_r, origin_r) = if mover == WHITE { (3, 1) } else { (4, 6) };
            if self.sq[mk(f, pawn_r).unwrap() as usize] != pc(P, mover) {
                return Some("ep pawn missing");
            }
            if self.sq[e as usize] != 0 || self.sq[mk(f, origin_r).unwrap() as usize] != 0 {
                return Some("ep squares not empty");
            }
        }
        None
    }

    // ------------------------------------------------------------------ text

    pub fn placement_fen(&self) -> String {
        let mut s = String::new();
        for r in (0..8).rev() {
            let mut e = 0;
            for f in 0..8 {
                let p = self.sq[r * 8 + f];
                if p == 0 {
                    e += 1;
                } else {
                    if e > 0 {
                        s.push_str(&e.to_string());
                        e = 0;
                    }
                    s.push(piece_char(p));
                }
            }
            if e > 0 {
                s.push_str(&e.to_string());
            }
            if r > 0 {
                s.push('/');
            }
        }
        s
    }

    /// Standard FEN (the "independent standard writer": e.p. square after every double push).
    pub fn fen(&self) -> String {
        self.fen_with_ep(self.ep)
    }

    pub fn fen_with_ep(&self, ep: Option<Sq>) -> String {
        let mut s = self.placement_fen();
        s.push(' ');
        s.push(if self.stm == WHITE { 'w' } else { 'b' });
        s.push(' ');
        if self.castle == 0 {
            s.push('-');
        } else {
            for (b, ch) in [(WK, 'K'), (WQ, 'Q'), (BK, 'k'), (BQ, 'q')].iter() {
                if self.castle & b != 0 {
                    s.push(*ch);
                }
            }
        }
        s.push(' ');
        match ep {
            None => s.push('-'),
            Some(e) => s.push_str(&sq_name(e)),
        }
        s.push_str(" 0 1");
        s
    }

    /// Strict reader of standard FEN (4 or 6 fields). Returns None for anything malformed.
    pub fn from_fen(f: &str) -> Option<RPos> {
        let t: Vec<&str> = f.split(' ').collect();
        if t.len() != 4 && t.len() != 6 {
            return None;
        }
        let mut sq = [0u8; 64];
        let rows: Vec<&str> = t[0].split('/').collect();
        if rows.len() != 8 {
            return None;
        }
        for (i, row) in rows.iter().enumerate() {
            let r = 7 - i as i8;
            let mut fl = 0i8;
            let mut last_digit = false;
            for ch in row.chars() {
                match ch {
                    '1'..='8' => {
                        if last_digit {
                            return None;
                        }
                        last_digit = true;
                        fl += ch as i8 - '0' as i8;
                    }
                    _ => {
                        last_digit = false;
                        let k = match ch.to_ascii_lowercase() {
                            'p' => P,
                            'n' => N,
                            'b' => B,
                            'r' => R,
                            'q' => Q,
                            'k' => K,
                            _ => return None,
                        };
                        let c = if ch.is_ascii_lowercase() { BLACK } else { WHITE };
                        sq[mk(fl, r)? as usize] = pc(k, c);
                        fl += 1;
                    }
                }
            }
            if fl != 8 {
                return None;
            }
        }
        let stm = match t[1] {
            "w" => WHITE,
            "b" => BLACK,
            _ => return None,
        };
        let mut castle = 0;
        if t[2] != "-" {
            if t[2].is_empty() {
                return None;
            }
            for ch in t[2].chars() {
                match ch {
                    'K' => castle |= WK,
                    'Q' => castle |= WQ,
                    'k' => castle |= BK,
                    'q' => castle |= BQ,
                    _ => return None,
                }
            }
        }
        let ep = if t[3] == "-" {
            None
        } else {
            let b = t[3].as_bytes();
            if b.len() != 2 || !(b'a'..=b'h').contains(&b[0]) || !(b'1'..=b'8').contains(&b[1]) {
                return None;
            }
            Some((b[1] - b'1') * 8 + (b[0] - b'a'))
        };
        Some(RPos { sq, stm, castle, ep })
    }

    // --------------------------------------------------------------- mirrors

    /// Swap colours and flip the board top to bottom.
    pub fn mirror_v(&self) -> RPos {
        let mut q = RPos {
            sq: [0; 64],
            stm: self.stm ^ 1,
            castle: ((self.castle & 3) << 2) | ((self.castle >> 2) & 3),
            ep: self.ep.map(vflip),
        };
        for s in 0..64u8 {
            let x = self.sq[s as usize];
            if x != 0 {
                q.sq[vflip(s) as usize] = x ^ 8;
            }
        }
        q
    }

    /// Flip left to right (only meaningful without castling rights).
    pub fn mirror_h(&self) -> RPos {
        let mut q = RPos { sq: [0; 64], stm: self.stm, castle: 0, ep: self.ep.map(hflip) };
        for s in 0..64u8 {
            q.sq[hflip(s) as usize] = self.sq[s as usize];
        }
        q
    }

    // ----------------------------------------------------------- fingerprint

    /// 128-bit fingerprint of (placement, side, rights, `ep_state`), independent of Zobrist hashing.
    /// `ep_state` is supplied by the caller (e.g. the library's recorded en-passant file).
    pub fn fingerprint(&self, ep_state: Option<u8>) -> u128 {
        let mut h1: u64 = 0xcbf29ce484222325;
        let mut h2: u64 = 0x9E3779B97F4A7C15;
        let mut feed = |b: u8| {
            h1 ^= b as u64;
            h1 = h1.wrapping_mul(0x100000001b3);
            h2 = (h2 ^ (b as u64).wrapping_add(0x51)).wrapping_mul(0xff51afd7ed558ccd);
            h2 ^= h2 >> 29;
        };
        for s in 0..64 {
            feed(self.sq[s]);
        }
        feed(self.stm);
        feed(self.castle);
        feed(match ep_state {
            None => 0xff,
            Some(f) => f,
        });
        ((h1 as u128) << 64) | h2 as u128
    }

    pub fn perft(&self, d: u32) -> u64 {
        if d == 0 {
            return 1;
        }
        let ms = self.legal_moves();
        if d == 1 {
            return ms.len() as u64;
        }
        ms.iter().map(|m| self.make(*m).perft(d - 1)).sum()
    }
}

pub fn vflip(s: Sq) -> Sq {
    s ^ 56
}
pub fn hflip(s: Sq) -> Sq {
    s ^ 7
}
pub fn vflip_set(b: u64) -> u64 {
    let mut o = 0;
    for s in 0..64u8 {
        if b >> s & 1 == 1 {
            o |= 1u64 << vflip(s);
        }
    }
    o
}
pub fn hflip_set(b: u64) -> u64 {
    let mut o = 0;
    for s in 0..64u8 {
        if b >> s & 1 == 1 {
            o |= 1u64 << hflip(s);
        }
    }
    o
}

pub fn piece_char(p: u8) -> char {
    let ch = [' ', 'p', 'n', 'b', 'r', 'q', 'k'][kind(p) as usize];
    if color(p) == WHITE {
        ch.to_ascii_uppercase()
    } else {
        ch
    }
}

/// Self-check of the model against published perft numbers. Any mismatch is a harness error.
pub fn self_check(deep: bool) -> Result<(), String> {
    self_check_depth(if deep { 3 } else { 2 })
}

pub fn self_check_depth(maxd: usize) -> Result<(), String> {
    let cases: [(&str, [u64; 3]); 6] = [
        ("rnbqkbnr/pppppppp/8/8/8/8/PPPPPPPP/RNBQKBNR w KQkq - 0 1", [20, 400, 8902]),
        ("r3k2r/p1ppqpb1/bn2pnp1/3PN3/1p2P3/2N2Q1p/PPPBBPPP/R3K2R w KQkq - 0 1", [48, 2039, 97862]),
        ("8/2p5/3p4/KP5r/1R3p1k/8/4P1P1/8 w - - 0 1", [14, 191, 2812]),
        ("r3k2r/Pppp1ppp/1b3nbN/nP6/BBP1P3/q4N2/Pp1P2PP/R2Q1RK1 w kq - 0 1", [6, 264, 9467]),
        ("rnbq1k1r/pp1Pbppp/2p5/8/2B5/8/PPP1NnPP/RNBQK2R w KQ - 1 8", [44, 1486, 62379]),
        ("r4rk1/1pp1qppp/p1np1n2/2b1p1B1/2B1P1b1/P1NP1N2/1PP1QPPP/R4RK1 w - - 0 10", [46, 2079, 89890]),
    ];
    for (fen, want) in cases.iter() {
        let p = RPos::from_fen(fen).ok_or_else(|| format!("model cannot read {}", fen))?;
        if !p.valid() {
            return Err(format!("model calls {} invalid", fen));
        }
        if p.fen() != *fen && !fen.ends_with("1 8") && !fen.ends_with("0 10") {
            return Err(format!("model fen writer: {} -> {}", fen, p.fen()));
        }
        for d in 1..=maxd {
            let got = p.perft(d as u32);
            if got != want[d - 1] {
                return Err(format!("model perft({}) of {} = {} want {}", d, fen, got, want[d - 1]));
            }
        }
    }
    Ok(())
}
