//! chess-harness: runtime monitors for jordanbray/chess (see /verif/DESIGN.md).
pub mod conv;
pub mod corpus;
pub mod fuzzplay;
pub mod mon_game;
pub mod mon_movegen;
pub mod mon_san;
pub mod mon_tables;
pub mod mon_threads;
pub mod mon_valid;
pub mod mon_walk;
pub mod refchess;
pub mod report;
pub mod rng;
pub mod runners;
pub mod synth;
pub mod walk;
