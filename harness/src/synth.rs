//! W3: position synthesiser and W4: directed rare-motif scenarios.
//! Every position handed out is valid by the model's predicate; en-passant state is never invented:
//! it arises only by *playing* a double push (the `prelude`).
use crate::refchess::*;
use crate::rng::Rng;

#[derive(Clone, Debug)]
pub struct Start {
    pub pos: RPos,
    /// moves to be played (through the library and the model) before free play starts
    pub prelude: Vec<RMove>,
    pub tag: &'static str,
}

impl Start {
    pub fn plain(pos: RPos, tag: &'static str) -> Start {
        Start { pos, prelude: vec![], tag }
    }
    /// the position after the prelude, per the model
    pub fn final_pos(&self) -> RPos {
        let mut p = self.pos.clone();
        for m in &self.prelude {
            p = p.make(*m);
        }
        p
    }
}

#[derive(Clone, Copy, PartialEq, Debug)]
pub enum Density {
    Sparse,
    Medium,
    Crowded,
}

fn rand_empty(rng: &mut Rng, p: &RPos, allow: u64) -> Option<Sq> {
    for _ in 0..200 {
        let s = rng.below(64) as u8;
        if p.sq[s as usize] == 0 && (allow >> s) & 1 == 1 {
            return Some(s);
        }
    }
    None
}

const PAWN_OK: u64 = 0x00ff_ffff_ffff_ff00;

/// random men for one side (king included), honouring <=16 men, <=8 pawns
fn random_material(rng: &mut Rng, n: usize, pawn_bias: u64) -> Vec<u8> {
    let mut v = vec![K];
    let mut pawns = 0;
    while v.len() < n {
        let k = if pawns < 8 && rng.chance(pawn_bias, 100) {
            pawns += 1;
            P
        } else {
            *rng.pick(&[N, B, R, Q, N, B, R])
        };
        v.push(k);
    }
    v
}

/// W3 synthesiser. Never returns an invalid position.
pub fn synth(rng: &mut Rng, d: Density) -> RPos {
    loop {
        let (lo, hi, bias) = match d {
            Density::Sparse => (1, 3, 30),
            Density::Medium => (3, 10, 45),
            Density::Crowded => (12, 16, 50),
        };
        let mut p = RPos::empty();
        let castle_friendly = rng.chance(1, 3);
        let mut ok = true;
        for c in 0..2u8 {
            let n = rng.range(lo, hi);
            let mut mat = random_material(rng, n, bias);
            if castle_friendly {
                // king (and up to two rooks) at home
                let home: Sq = if c == WHITE { 4 } else { 60 };
                if p.sq[home as usize] == 0 {
                    p.sq[home as usize] = pc(K, c);
                    mat.retain(|&k| k != K);
                    for rs in [home + 3, home - 4].iter() {
                        if rng.chance(2, 3) && p.sq[*rs as usize] == 0 && p.men(c) < n.max(2) {
                            if let Some(i) = mat.iter().position(|&k| k == R) {
                                mat.remove(i);
                            } else if mat.len() > 0 && p.men(c) + mat.len() >= 16 {
                                mat.pop();
                            }
                            p.sq[*rs as usize] = pc(R, c);
                        }
                    }
                }
            }
            for k in mat {
                if p.men(c) >= 16 {
                    break;
                }
                let allow = if k == P { PAWN_OK } else { !0u64 };
                match rand_empty(rng, &p, allow) {
                    Some(s) => p.sq[s as usize] = pc(k, c),
                    None => {
                        ok = false;
                    }
                }
            }
        }
        if !ok {
            continue;
        }
        p.stm = rng.below(2) as u8;
        // rights drawn only where king and rook are at home
        for (bit, ks, rs, c) in [(WK, 4usize, 7usize, WHITE), (WQ, 4, 0, WHITE), (BK, 60, 63, BLACK), (BQ, 60, 56, BLACK)].iter() {
            if p.sq[*ks] == pc(K, *c) && p.sq[*rs] == pc(R, *c) && rng.chance(3, 4) {
                p.castle |= bit;
            }
        }
        if p.in_check(p.stm ^ 1) {
            if !p.in_check(p.stm) {
                p.stm ^= 1;
            } else {
                continue;
            }
        }
        if p.valid() {
            return p;
        }
    }
}

/// W3': a synthesised position in which a double push landing beside an enemy pawn is legal;
/// returned as start + that push as prelude, so that e.p. state arises by play.
pub fn synth_ep(rng: &mut Rng) -> Start {
    loop {
        let d = *rng.pick(&[Density::Sparse, Density::Medium, Density::Medium, Density::Crowded]);
        let mut p = synth(rng, d);
        let c = p.stm;
        let f = rng.below(8) as i8;
        let (r0, r1, r2) = if c == WHITE { (1, 2, 3) } else { (6, 5, 4) };
        let sqs = [mk(f, r0).unwrap(), mk(f, r1).unwrap(), mk(f, r2).unwrap()];
        if sqs.iter().any(|s| kind(p.sq[*s as usize]) == K) {
            continue;
        }
        // one or two enemy pawns beside the landing square
        let mut adj = vec![];
        for df in [-1i8, 1].iter() {
            if let Some(t) = mk(f + df, r2) {
                if kind(p.sq[t as usize]) != K {
                    adj.push(t);
                }
            }
        }
        if adj.is_empty() {
            continue;
        }
        rng.shuffle(&mut adj);
        let n_adj = if adj.len() == 2 && rng.chance(1, 3) { 2 } else { 1 };
        p.sq[sqs[0] as usize] = pc(P, c);
        p.sq[sqs[1] as usize] = 0;
        p.sq[sqs[2] as usize] = 0;
        for t in adj.iter().take(n_adj) {
            p.sq[*t as usize] = pc(P, c ^ 1);
        }
        // clearing squares may have removed rooks/kings at home
        fix_rights(&mut p);
        let m = RMove::new(sqs[0], sqs[2], 0);
        if p.valid() && p.is_legal(m) {
            return Start { pos: p, prelude: vec![m], tag: "synth_ep" };
        }
    }
}

pub fn fix_rights(p: &mut RPos) {
    for (bit, ks, rs, c) in [(WK, 4usize, 7usize, WHITE), (WQ, 4, 0, WHITE), (BK, 60, 63, BLACK), (BQ, 60, 56, BLACK)].iter() {
        if !(p.sq[*ks] == pc(K, *c) && p.sq[*rs] == pc(R, *c)) {
            p.castle &= !bit;
        }
    }
}

// ------------------------------------------------------------------------------------------------
// W4 directed scenarios.  Written from White's point of view; a random colour mirror and (without
// castling rights) a random left-right mirror is applied at the end.

fn sqm(f: i8, r: i8) -> Sq {
    mk(f, r).unwrap()
}
fn bit(s: Sq) -> u64 {
    1u64 << s
}

/// add up to `max` random men on squares outside `reserved`
fn add_noise(rng: &mut Rng, p: &mut RPos, reserved: u64, max: usize) {
    let n = rng.below(max + 1);
    for _ in 0..n {
        let c = rng.below(2) as u8;
        if p.men(c) >= 16 {
            continue;
        }
        let k = *rng.pick(&[P, P, P, N, B, R, Q, N, B]);
        if k == P && p.count(pc(P, c)) >= 8 {
            continue;
        }
        let allow = if k == P { PAWN_OK & !reserved } else { !reserved };
        if let Some(s) = rand_empty(rng, p, allow) {
            p.sq[s as usize] = pc(k, c);
        }
    }
}

fn place_king_somewhere(rng: &mut Rng, p: &mut RPos, c: u8, reserved: u64) -> bool {
    for _ in 0..100 {
        if let Some(s) = rand_empty(rng, p, !reserved) {
            p.sq[s as usize] = pc(K, c);
            // kings must not touch and the king must not stand attacked if its side is not to move;
            // validity is re-checked by the caller, here only the cheap adjacency test
            let other = p.king_sq(c ^ 1);
            let bad = match other {
                Some(o) => {
                    let (f1, r1) = fr(o);
                    let (f2, r2) = fr(s);
                    (f1 - f2).abs() <= 1 && (r1 - r2).abs() <= 1
                }
                None => false,
            };
            if !bad {
                return true;
            }
            p.sq[s as usize] = 0;
        }
    }
    false
}

fn ray_set(from: Sq, d: (i8, i8)) -> u64 {
    let (mut f, mut r) = fr(from);
    let mut o = 0;
    loop {
        f += d.0;
        r += d.1;
        match mk(f, r) {
            Some(t) => o |= bit(t),
            None => break,
        }
    }
    o
}

/// For a slider that is lined up with an enemy king (blocked or not), put a second slider of the same
/// kind on the *opposite* ray of that king, shielded by a knight next to the king: code that picks "the"
/// slider on a line (first bit, lowest square) instead of looking along each ray is then exercised.
fn add_opposite_sliders(rng: &mut Rng, p: &mut RPos) {
    for c in 0..2u8 {
        let k = match p.king_sq(c) {
            Some(k) => k,
            None => continue,
        };
        let (kf, kr) = fr(k);
        for d in KG.iter() {
            // nearest slider of the other colour on this ray that moves along it
            let diag = d.0 != 0 && d.1 != 0;
            let (mut f, mut r) = (kf + d.0, kr + d.1);
            let mut found = None;
            while let Some(t) = mk(f, r) {
                let x = p.sq[t as usize];
                if x != 0 && color(x) != c && (kind(x) == Q || kind(x) == if diag { B } else { R }) {
                    found = Some(kind(x));
                    // a battery: one more slider of that kind right behind it on the same ray
                    if rng.chance(1, 3) && p.men(c ^ 1) < 15 {
                        if let Some(b2) = mk(f + d.0, r + d.1) {
                            if p.sq[b2 as usize] == 0 {
                                p.sq[b2 as usize] = pc(if rng.chance(1, 2) { Q } else if diag { B } else { R }, c ^ 1);
                            }
                        }
                    }
                    break;
                }
                f += d.0;
                r += d.1;
            }
            let sk = match found {
                Some(sk) if rng.chance(1, 3) => sk,
                _ => continue,
            };
            let near = match mk(kf - d.0, kr - d.1) {
                Some(s) => s,
                None => continue,
            };
            let mut fars = vec![];
            let (mut f, mut r) = (kf - 2 * d.0, kr - 2 * d.1);
            while let Some(t) = mk(f, r) {
                if p.sq[t as usize] == 0 {
                    fars.push(t);
                }
                f -= d.0;
                r -= d.1;
            }
            if fars.is_empty() || p.sq[near as usize] != 0 || p.men(c ^ 1) >= 15 {
                continue;
            }
            let far = *rng.pick(&fars);
            p.sq[near as usize] = pc(N, rng.below(2) as u8);
            p.sq[far as usize] = pc(sk, c ^ 1);
        }
    }
}

fn finish(rng: &mut Rng, mut st: Start) -> Option<Start> {
    if rng.chance(1, 4) {
        let backup = st.pos.clone();
        add_opposite_sliders(rng, &mut st.pos);
        // keep the decoration only if the recipe (validity, legality of the prelude) survives it
        let mut ok = st.pos.valid();
        if ok {
            let mut q = st.pos.clone();
            for m in &st.prelude {
                if !q.is_legal(*m) {
                    ok = false;
                    break;
                }
                q = q.make(*m);
            }
        }
        if !ok {
            st.pos = backup;
        }
    }
    fix_rights(&mut st.pos);
    if !st.pos.valid() {
        return None;
    }
    // prelude must be legal per the model
    let mut p = st.pos.clone();
    for m in &st.prelude {
        if !p.is_legal(*m) {
            return None;
        }
        p = p.make(*m);
    }
    if rng.chance(1, 2) {
        st.pos = st.pos.mirror_v();
        for m in st.prelude.iter_mut() {
            m.from = vflip(m.from);
            m.to = vflip(m.to);
        }
    }
    if st.pos.castle == 0 && rng.chance(1, 2) {
        st.pos = st.pos.mirror_h();
        for m in st.prelude.iter_mut() {
            m.from = hflip(m.from);
            m.to = hflip(m.to);
        }
    }
    Some(st)
}

pub const N_SCEN: usize = 23;
pub const SCEN_NAMES: [&str; N_SCEN] = [
    "ep_rank_exposure",
    "ep_after_interposing_push",
    "ep_in_check",
    "ep_capturer_pinned",
    "castle_matrix",
    "rights_bookkeeping",
    "promotions",
    "pins",
    "checks",
    "movelist_pressure",
    "san_convergence",
    "mating_nets",
    "double_check",
    "ep_two_capturers",
    "castle_through_pieces",
    "promo_discovered",
    "castle_with_ep_pending",
    "stalemate_factory",
    "only_move_is_ep",
    "ep_interposes_check",
    "special_move_ends_game",
    "double_push_ends_game_illegal_ep",
    "many_lined_up_sliders",
];

/// Try to produce an instance of scenario `id`; None if this draw did not validate.
pub fn scenario(rng: &mut Rng, id: usize) -> Option<Start> {
    let mut p = RPos::empty();
    let tag = SCEN_NAMES[id % N_SCEN];
    match id % N_SCEN {
        0 => {
            // e.p. rank exposure: white K and black R/Q on the 5th rank, exactly the two pawns between
            let kf = rng.below(8) as i8;
            let sf = loop {
                let x = rng.below(8) as i8;
                if (x - kf).abs() >= 3 {
                    break x;
                }
            };
            let (lo, hi) = if kf < sf { (kf + 1, sf - 1) } else { (sf + 1, kf - 1) };
            // two adjacent files strictly between - or (variant) elsewhere on the rank, with two unrelated men between
            let outside = rng.chance(1, 5);
            let a = if outside {
                let mn = kf.min(sf);
                let mx = kf.max(sf);
                let mut cands: Vec<i8> = vec![];
                for x in 0..7i8 {
                    if (x + 1 < mn) || (x > mx) {
                        cands.push(x);
                    }
                }
                if cands.is_empty() {
                    return None;
                }
                *rng.pick(&cands)
            } else {
                rng.range(lo as usize, (hi - 1) as usize) as i8
            };
            let (wf, bf) = if rng.chance(1, 2) { (a, a + 1) } else { (a + 1, a) };
            if outside {
                let mut inside: Vec<i8> = (lo..=hi).collect();
                rng.shuffle(&mut inside);
                for x in inside.iter().take(2) {
                    p.sq[sqm(*x, 4) as usize] = pc(*rng.pick(&[N, B]), rng.below(2) as u8);
                }
            }
            p.sq[sqm(kf, 4) as usize] = pc(K, WHITE);
            p.sq[sqm(sf, 4) as usize] = pc(*rng.pick(&[R, Q]), BLACK);
            p.sq[sqm(wf, 4) as usize] = pc(P, WHITE);
            p.sq[sqm(bf, 6) as usize] = pc(P, BLACK);
            let mut reserved = 0xffu64 << 32 | bit(sqm(bf, 5)) | bit(sqm(bf, 6)) | bit(sqm(wf, 5));
            // variant: a second enemy rook/queen on the same rank beyond the king (it must not give check:
            // keep at least one man between, or let it stand next to a blocker)
            if rng.chance(1, 4) {
                let side: i8 = if sf > kf { -1 } else { 1 };
                let mut far: Vec<i8> = vec![];
                let mut x = kf + side;
                while x >= 0 && x < 8 {
                    far.push(x);
                    x += side;
                }
                if far.len() >= 2 {
                    let blocker = far[0];
                    let second = far[rng.range(1, far.len() - 1)];
                    if p.sq[sqm(blocker, 4) as usize] == 0 && p.sq[sqm(second, 4) as usize] == 0 {
                        p.sq[sqm(blocker, 4) as usize] = pc(*rng.pick(&[N, B]), rng.below(2) as u8);
                        p.sq[sqm(second, 4) as usize] = pc(*rng.pick(&[R, Q]), BLACK);
                    }
                }
            }
            // variant: a capturer on each side of the pushed pawn (three men between king and slider: both captures legal)
            if rng.chance(1, 4) {
                let of = bf + (bf - wf);
                if of > lo - 1 && of < hi + 1 && of != kf && of != sf && of >= 0 && of < 8 && p.sq[sqm(of, 4) as usize] == 0 {
                    p.sq[sqm(of, 4) as usize] = pc(P, WHITE);
                    reserved |= bit(sqm(of, 5));
                }
            }
            // variant: a third man between (capture becomes legal)
            if rng.chance(1, 3) && hi - lo >= 2 {
                let x = rng.range(lo as usize, hi as usize) as i8;
                if x != wf && x != bf {
                    p.sq[sqm(x, 4) as usize] = pc(*rng.pick(&[N, B]), rng.below(2) as u8);
                }
            }
            if !place_king_somewhere(rng, &mut p, BLACK, reserved) {
                return None;
            }
            reserved |= bit(p.king_sq(BLACK).unwrap());
            add_noise(rng, &mut p, reserved, 8);
            p.stm = BLACK;
            finish(rng, Start { pos: p, prelude: vec![RMove::new(sqm(bf, 6), sqm(bf, 4), 0)], tag })
        }
        1 => {
            // the double push interposes against a check (the pusher was in check); the opponent may then
            // capture the interposed pawn e.p.  (A capture that would expose the *capturer's* king along a
            // diagonal through the captured pawn cannot arise: the capturer would have been in check before.)
            let f = rng.range(0, 7) as i8; // white pawn f2 -> f4
            let d = *rng.pick(&KG);
            if d.0 == 0 {
                return None; // along the file the pawn cannot interpose by a double step from behind
            }
            let n1 = rng.range(1, 3) as i8;
            let n2 = rng.range(1, 3) as i8;
            let ksq = mk(f - d.0 * n1, 3 - d.1 * n1)?;
            let ssq = mk(f + d.0 * n2, 3 + d.1 * n2)?;
            let bf = f + *rng.pick(&[-1i8, 1]);
            if bf < 0 || bf > 7 {
                return None;
            }
            let pawn_from = sqm(f, 1);
            let pawn_mid = sqm(f, 2);
            let pawn_to = sqm(f, 3);
            let bp = sqm(bf, 3);
            for s in [ksq, ssq].iter() {
                if *s == pawn_from || *s == pawn_mid || *s == pawn_to || *s == bp {
                    return None;
                }
            }
            let diag = d.0 != 0 && d.1 != 0;
            p.sq[ksq as usize] = pc(K, WHITE);
            p.sq[ssq as usize] = pc(if diag { *rng.pick(&[B, Q]) } else { *rng.pick(&[R, Q]) }, BLACK);
            p.sq[pawn_from as usize] = pc(P, WHITE);
            p.sq[bp as usize] = pc(P, BLACK);
            let mut reserved = ray_set(ksq, d) | bit(ksq) | bit(pawn_from) | bit(pawn_mid) | bit(pawn_to) | bit(bp) | bit(sqm(bf, 2));
            if !place_king_somewhere(rng, &mut p, BLACK, reserved) {
                return None;
            }
            reserved |= bit(p.king_sq(BLACK).unwrap());
            add_noise(rng, &mut p, reserved, 6);
            p.stm = WHITE;
            finish(rng, Start { pos: p, prelude: vec![RMove::new(pawn_from, pawn_to, 0)], tag })
        }
        2 => {
            // e.p. while in check: the pushed pawn gives check / discovers a slider check / both
            let bf = rng.range(0, 7) as i8;
            let variant = rng.below(3);
            let wf = bf + *rng.pick(&[-1i8, 1]);
            if wf < 0 || wf > 7 {
                return None;
            }
            p.sq[sqm(bf, 6) as usize] = pc(P, BLACK);
            p.sq[sqm(wf, 4) as usize] = pc(P, WHITE);
            let mut reserved = bit(sqm(bf, 6)) | bit(sqm(bf, 5)) | bit(sqm(bf, 4)) | bit(sqm(wf, 5));
            if variant == 0 || variant == 2 {
                // king attacked by the pawn on (bf,4): stands on (bf±1,3)
                let kf = bf + *rng.pick(&[-1i8, 1]);
                let k = mk(kf, 3)?;
                if p.sq[k as usize] != 0 {
                    return None;
                }
                p.sq[k as usize] = pc(K, WHITE);
                if kf == wf && variant == 0 && rng.chance(1, 2) {
                    // the capturing pawn is pinned on its file: taking the checking pawn is illegal
                    let s = sqm(wf, rng.range(5, 7) as i8);
                    if p.sq[s as usize] == 0 && s != sqm(bf, 6) {
                        p.sq[s as usize] = pc(*rng.pick(&[R, Q]), BLACK);
                        reserved |= ray_set(k, (0, 1));
                    }
                }
            }
            if variant == 1 || variant == 2 {
                // a black slider whose line to the white king passes through (bf,6)
                let d = *rng.pick(&[(1i8, 0i8), (-1, 0), (1, 1), (-1, 1), (1, -1), (-1, -1)]);
                let k = if variant == 2 {
                    p.king_sq(WHITE).unwrap()
                } else {
                    let k = mk(bf - d.0 * rng.range(1, 4) as i8, 6 - d.1 * rng.range(1, 4) as i8)?;
                    if p.sq[k as usize] != 0 {
                        return None;
                    }
                    p.sq[k as usize] = pc(K, WHITE);
                    k
                };
                // is (bf,6) on a line from k in some direction?  find it
                let (kf, kr) = fr(k);
                let (dx, dy) = (bf - kf, 6 - kr);
                let on_line = dx == 0 || dy == 0 || dx.abs() == dy.abs();
                if !on_line || (dx == 0 && dy == 0) {
                    return None;
                }
                let dd = (dx.signum(), dy.signum());
                if dd.0 == 0 {
                    return None; // along the file the push does not discover anything
                }
                let s = mk(bf + dd.0 * rng.range(1, 3) as i8, 6 + dd.1 * rng.range(1, 3) as i8)?;
                if p.sq[s as usize] != 0 {
                    return None;
                }
                let diag = dd.0 != 0 && dd.1 != 0;
                p.sq[s as usize] = pc(if diag { *rng.pick(&[B, Q]) } else { *rng.pick(&[R, Q]) }, BLACK);
                reserved |= ray_set(k, dd);
            }
            if !place_king_somewhere(rng, &mut p, BLACK, reserved) {
                return None;
            }
            reserved |= bit(p.king_sq(BLACK).unwrap()) | bit(p.king_sq(WHITE)?);
            add_noise(rng, &mut p, reserved, 6);
            p.stm = BLACK;
            finish(rng, Start { pos: p, prelude: vec![RMove::new(sqm(bf, 6), sqm(bf, 4), 0)], tag })
        }
        3 => {
            // e.p. with the capturing pawn pinned (file / capture diagonal / other diagonal)
            let wf = rng.range(0, 7) as i8;
            let bf = wf + *rng.pick(&[-1i8, 1]);
            if bf < 0 || bf > 7 {
                return None;
            }
            let d0 = *rng.pick(&[(0i8, 1i8), (bf - wf, 1), (wf - bf, 1), (1, 0), (-1, 0)]);
            // either orientation: the king may also stand beyond the landing square with the slider behind the pawn
            let d = if rng.chance(1, 2) { d0 } else { (-d0.0, -d0.1) };
            // slider "ahead" of the pawn in direction d, king behind
            let s = mk(wf + d.0 * rng.range(1, 3) as i8, 4 + d.1 * rng.range(1, 3) as i8)?;
            let k = mk(wf - d.0 * rng.range(1, 3) as i8, 4 - d.1 * rng.range(1, 3) as i8)?;
            p.sq[sqm(wf, 4) as usize] = pc(P, WHITE);
            p.sq[sqm(bf, 6) as usize] = pc(P, BLACK);
            if p.sq[s as usize] != 0 || p.sq[k as usize] != 0 || s == sqm(bf, 4) || k == sqm(bf, 4) || s == sqm(bf, 5) || k == sqm(bf, 5) {
                return None;
            }
            let diag = d.0 != 0 && d.1 != 0;
            p.sq[s as usize] = pc(if diag { *rng.pick(&[B, Q]) } else { *rng.pick(&[R, Q]) }, BLACK);
            p.sq[k as usize] = pc(K, WHITE);
            let mut reserved = ray_set(k, d) | bit(k) | bit(sqm(bf, 5)) | bit(sqm(bf, 4)) | bit(sqm(wf, 5));
            if !place_king_somewhere(rng, &mut p, BLACK, reserved) {
                return None;
            }
            reserved |= bit(p.king_sq(BLACK).unwrap());
            add_noise(rng, &mut p, reserved, 6);
            p.stm = BLACK;
            finish(rng, Start { pos: p, prelude: vec![RMove::new(sqm(bf, 6), sqm(bf, 4), 0)], tag })
        }
        4 | 14 => {
            // castling matrix: each of a1..h1 attacked in turn by each enemy piece type; blockers
            p.sq[4] = pc(K, WHITE);
            let wings = rng.range(1, 3);
            if wings & 1 != 0 {
                p.sq[7] = pc(R, WHITE);
                p.castle |= WK;
            }
            if wings & 2 != 0 {
                p.sq[0] = pc(R, WHITE);
                p.castle |= WQ;
            }
            // sometimes the rook is there but the right is not, or vice versa handled by fix_rights
            if rng.chance(1, 8) {
                p.castle &= !*rng.pick(&[WK, WQ]);
            }
            if id % N_SCEN == 14 {
                // a man (own or enemy) between king and rook
                let s = *rng.pick(&[1u8, 2, 3, 5, 6]);
                p.sq[s as usize] = pc(*rng.pick(&[N, B, Q]), rng.below(2) as u8);
            }
            let target = rng.below(8) as u8;
            let at = *rng.pick(&[P, N, B, R, Q, K]);
            // find a square from which `at` attacks `target`
            let mut placed = false;
            for _ in 0..60 {
                let s = rng.range(8, 63) as u8;
                if p.sq[s as usize] != 0 || (at == P && (s >> 3 == 0 || s >> 3 == 7)) {
                    continue;
                }
                p.sq[s as usize] = pc(at, BLACK);
                if p.attackers(target, BLACK) & bit(s) != 0 {
                    placed = true;
                    break;
                }
                p.sq[s as usize] = 0;
            }
            if !placed && rng.chance(1, 2) {
                return None;
            }
            let mut reserved = 0xffu64;
            if p.king_sq(BLACK).is_none() {
                if !place_king_somewhere(rng, &mut p, BLACK, reserved | 0xff00) {
                    return None;
                }
            }
            reserved |= bit(p.king_sq(BLACK).unwrap());
            // black may have castling material too
            if p.sq[60] == 0 && rng.chance(1, 4) && kind(p.sq[p.king_sq(BLACK).unwrap() as usize]) == K {
                let k = p.king_sq(BLACK).unwrap();
                p.sq[k as usize] = 0;
                p.sq[60] = pc(K, BLACK);
                if p.sq[63] == 0 {
                    p.sq[63] = pc(R, BLACK);
                    p.castle |= BK;
                }
                if p.sq[56] == 0 && rng.chance(1, 2) {
                    p.sq[56] = pc(R, BLACK);
                    p.castle |= BQ;
                }
                reserved |= 0xffu64 << 56;
            }
            add_noise(rng, &mut p, reserved, 5);
            p.stm = WHITE;
            if p.in_check(BLACK) {
                return None;
            }
            finish(rng, Start::plain(p, tag))
        }
        5 => {
            // rights bookkeeping: RxR on the home square, promotion capturing a home rook, rook/king excursions
            p.sq[4] = pc(K, WHITE);
            p.sq[60] = pc(K, BLACK);
            p.sq[0] = pc(R, WHITE);
            p.sq[7] = pc(R, WHITE);
            p.sq[56] = pc(R, BLACK);
            p.sq[63] = pc(R, BLACK);
            p.castle = WK | WQ | BK | BQ;
            match rng.below(6) {
                4 | 5 => {
                    // an enemy king next to an unmoved rook: the king may take it while the right still exists
                    let (rook, cands, king_home, other_rook, stm) = if rng.chance(1, 2) {
                        (7usize, [14usize, 15, 6], 60usize, 63usize, BLACK)
                    } else {
                        (0usize, [9usize, 8, 1], 60usize, 56usize, BLACK)
                    };
                    let _ = rook;
                    // black king leaves home (black loses its rights), stands beside the white rook
                    p.sq[king_home] = 0;
                    p.sq[other_rook] = 0;
                    p.sq[56] = 0;
                    p.sq[63] = 0;
                    p.castle &= WK | WQ;
                    let ks = cands[rng.below(3)];
                    p.sq[ks] = pc(K, BLACK);
                    p.stm = stm;
                }
                0 => {} // open a- and h-files: Rxa8 / Rxh8 available at once
                1 => {
                    p.sq[sqm(1, 6) as usize] = pc(P, WHITE); // b7xa8 promotes capturing the rook
                    p.sq[sqm(6, 6) as usize] = pc(P, WHITE);
                }
                2 => {
                    p.sq[sqm(1, 1) as usize] = pc(P, BLACK);
                    p.sq[sqm(6, 1) as usize] = pc(P, BLACK);
                    p.stm = BLACK;
                }
                _ => {
                    p.sq[sqm(0, 1) as usize] = pc(P, WHITE);
                    p.sq[sqm(7, 6) as usize] = pc(P, BLACK);
                }
            }
            let reserved = 0xffu64 | 0xffu64 << 56;
            add_noise(rng, &mut p, reserved, 6);
            if rng.chance(1, 2) {
                p.stm ^= 1;
            }
            if p.in_check(p.stm ^ 1) {
                p.stm ^= 1;
            }
            finish(rng, Start::plain(p, tag))
        }
        6 | 15 => {
            // promotions: push and both captures, all four pieces, with checks/discoveries
            let f = rng.below(8) as i8;
            p.sq[sqm(f, 6) as usize] = pc(P, WHITE);
            let mut reserved = bit(sqm(f, 6));
            if rng.chance(1, 4) {
                p.sq[sqm(f, 7) as usize] = pc(*rng.pick(&[N, B, R, Q]), BLACK); // push blocked
            }
            for df in [-1i8, 1].iter() {
                if let Some(t) = mk(f + df, 7) {
                    if rng.chance(2, 3) {
                        p.sq[t as usize] = pc(*rng.pick(&[N, B, R, Q]), BLACK);
                    }
                }
            }
            reserved |= 0xffu64 << 56;
            if id % N_SCEN == 15 {
                // discovered check: white rook/queen on the 7th rank behind the pawn, black king on the 7th rank
                let (kf, sf) = (rng.below(8) as i8, rng.below(8) as i8);
                if kf == f || sf == f || kf == sf {
                    return None;
                }
                let lo = kf.min(sf);
                let hi = kf.max(sf);
                if !(lo < f && f < hi) {
                    return None;
                }
                p.sq[sqm(kf, 6) as usize] = pc(K, BLACK);
                p.sq[sqm(sf, 6) as usize] = pc(*rng.pick(&[R, Q]), WHITE);
                reserved |= 0xffu64 << 48;
            } else {
                // black king on the 8th rank, on a diagonal of the promotion square, or a knight's jump away
                for _ in 0..20 {
                    let s = match rng.below(4) {
                        0 => mk(rng.below(8) as i8, 7),
                        1 => {
                            let d = *rng.pick(&[(1i8, -1i8), (-1, -1)]);
                            let n = rng.range(1, 5) as i8;
                            mk(f + d.0 * n, 7 + d.1 * n)
                        }
                        2 => {
                            let d = *rng.pick(&KN);
                            mk(f + d.0, 7 + d.1)
                        }
                        _ => mk(rng.below(8) as i8, rng.range(3, 7) as i8),
                    };
                    if let Some(s) = s {
                        if p.sq[s as usize] == 0 {
                            p.sq[s as usize] = pc(K, BLACK);
                            break;
                        }
                    }
                }
                if p.king_sq(BLACK).is_none() {
                    return None;
                }
            }
            reserved |= bit(p.king_sq(BLACK).unwrap());
            if !place_king_somewhere(rng, &mut p, WHITE, reserved) {
                return None;
            }
            reserved |= bit(p.king_sq(WHITE).unwrap());
            add_noise(rng, &mut p, reserved, 6);
            p.stm = WHITE;
            finish(rng, Start::plain(p, tag))
        }
        7 => {
            // pins: every slider type pinning every piece type in all 8 directions
            let k = rng.below(64) as u8;
            let d = *rng.pick(&KG);
            let i = rng.range(1, 3) as i8;
            let j = i + rng.range(1, 3) as i8;
            let (kf, kr) = fr(k);
            let x = mk(kf + d.0 * i, kr + d.1 * i)?;
            let s = mk(kf + d.0 * j, kr + d.1 * j)?;
            let diag = d.0 != 0 && d.1 != 0;
            let pk = *rng.pick(&[P, N, B, R, Q, P]);
            if pk == P && (x >> 3 == 0 || x >> 3 == 7) {
                return None;
            }
            if rng.chance(1, 5) {
                // special: a pawn on the seventh rank pinned diagonally by a slider on the eighth rank
                // (its only move is to capture the pinner - and promote)
                let f = rng.range(1, 6) as i8;
                let df = *rng.pick(&[-1i8, 1]);
                let n = rng.range(1, 3) as i8;
                let ks = mk(f - df * n, 6 - n)?;
                let ss = mk(f + df, 7)?;
                p.sq[ks as usize] = pc(K, WHITE);
                p.sq[sqm(f, 6) as usize] = pc(P, WHITE);
                p.sq[ss as usize] = pc(*rng.pick(&[B, Q]), BLACK);
                let mut reserved = ray_set(ks, (df, 1)) | bit(ks);
                if !place_king_somewhere(rng, &mut p, BLACK, reserved) {
                    return None;
                }
                reserved |= bit(p.king_sq(BLACK).unwrap());
                add_noise(rng, &mut p, reserved, 6);
                p.stm = WHITE;
                return finish(rng, Start::plain(p, tag));
            }
            p.sq[k as usize] = pc(K, WHITE);
            p.sq[x as usize] = pc(pk, WHITE);
            p.sq[s as usize] = pc(if diag { *rng.pick(&[B, Q]) } else { *rng.pick(&[R, Q]) }, BLACK);
            let mut reserved = ray_set(k, d) | bit(k);
            if !place_king_somewhere(rng, &mut p, BLACK, reserved) {
                return None;
            }
            reserved |= bit(p.king_sq(BLACK).unwrap());
            // for pinned pawns give them something to capture / a pinner to take
            add_noise(rng, &mut p, reserved, 10);
            p.stm = WHITE;
            finish(rng, Start::plain(p, tag))
        }
        8 | 12 => {
            // checks: single check by each piece type (8) / double checks incl. "impossible but valid" ones (12)
            let k = rng.below(64) as u8;
            p.sq[k as usize] = pc(K, WHITE);
            let n_att = if id % N_SCEN == 12 { 2 } else { 1 };
            let mut placed = 0;
            for _ in 0..80 {
                if placed == n_att {
                    break;
                }
                let at = *rng.pick(&[P, N, B, R, Q]);
                let s = rng.below(64) as u8;
                if p.sq[s as usize] != 0 || (at == P && (s >> 3 == 0 || s >> 3 == 7)) {
                    continue;
                }
                p.sq[s as usize] = pc(at, BLACK);
                let att = p.attackers(k, BLACK);
                if att & bit(s) != 0 && att.count_ones() as usize == placed + 1 {
                    placed += 1;
                } else {
                    p.sq[s as usize] = 0;
                }
            }
            if placed != n_att {
                return None;
            }
            // keep all queen lines of the king free of noise so that the check is not accidentally blocked
            let mut reserved = bit(k);
            for d in KG.iter() {
                reserved |= ray_set(k, *d);
            }
            if !place_king_somewhere(rng, &mut p, BLACK, reserved) {
                return None;
            }
            reserved |= bit(p.king_sq(BLACK).unwrap());
            add_noise(rng, &mut p, reserved, 10);
            p.stm = WHITE;
            if p.checkers().count_ones() as usize != n_att {
                return None;
            }
            finish(rng, Start::plain(p, tag))
        }
        9 => {
            // move-list pressure: 16 men that each have a move + two e.p. capturers
            let variant_only_ep = rng.chance(1, 3);
            let bf = rng.range(1, 6) as i8;
            p.sq[sqm(bf, 6) as usize] = pc(P, BLACK);
            p.sq[sqm(bf - 1, 4) as usize] = pc(P, WHITE);
            p.sq[sqm(bf + 1, 4) as usize] = pc(P, WHITE);
            if variant_only_ep {
                p.sq[sqm(bf - 1, 5) as usize] = pc(*rng.pick(&[N, B]), BLACK);
                p.sq[sqm(bf + 1, 5) as usize] = pc(*rng.pick(&[N, B]), BLACK);
            }
            let mut reserved = bit(sqm(bf, 6)) | bit(sqm(bf, 5)) | bit(sqm(bf, 4)) | bit(sqm(bf - 1, 5)) | bit(sqm(bf + 1, 5));
            // six more white pawns on the second rank (each can push), on files other than bf±1
            let mut files: Vec<i8> = (0..8).filter(|f| *f != bf - 1 && *f != bf + 1).collect();
            rng.shuffle(&mut files);
            for f in files.iter().take(6) {
                p.sq[sqm(*f, 1) as usize] = pc(P, WHITE);
                reserved |= bit(sqm(*f, 2));
            }
            // king on the first rank, pieces on ranks 3-4 where they have air
            p.sq[sqm(rng.range(2, 5) as i8, 0) as usize] = pc(K, WHITE);
            let pieces = [Q, R, R, B, B, N, N];
            for k in pieces.iter() {
                let allow = (0xffffu64 << 16) & !reserved;
                if let Some(s) = rand_empty(rng, &p, allow) {
                    p.sq[s as usize] = pc(*k, WHITE);
                }
            }
            reserved |= 0xffffff;
            // black: king far away plus a few men
            for _ in 0..50 {
                let s = sqm(rng.below(8) as i8, 7);
                if p.sq[s as usize] == 0 {
                    p.sq[s as usize] = pc(K, BLACK);
                    break;
                }
            }
            p.king_sq(BLACK)?;
            let n = rng.below(6);
            for _ in 0..n {
                let k = *rng.pick(&[N, B, R, Q, P]);
                let allow = if k == P { PAWN_OK & !reserved & (0xffffu64 << 40) } else { (0xffffu64 << 48) & !reserved };
                if let Some(s) = rand_empty(rng, &p, allow) {
                    p.sq[s as usize] = pc(k, BLACK);
                }
            }
            p.stm = BLACK;
            finish(rng, Start { pos: p, prelude: vec![RMove::new(sqm(bf, 6), sqm(bf, 4), 0)], tag })
        }
        10 => {
            // same-square convergence for SAN: 2-4 like pieces able to reach one square
            let t = rng.below(64) as u8;
            let k = *rng.pick(&[N, R, Q, B, N, Q]);
            let n = rng.range(2, 4);
            let mut cands: Vec<Sq> = vec![];
            {
                // squares from which a `k` would attack t on an empty board
                let mut q = RPos::empty();
                for s in 0..64u8 {
                    if s == t {
                        continue;
                    }
                    q.sq[s as usize] = pc(k, WHITE);
                    if q.attackers(t, WHITE) & bit(s) != 0 {
                        cands.push(s);
                    }
                    q.sq[s as usize] = 0;
                }
            }
            rng.shuffle(&mut cands);
            // prefer same-file / same-rank pairs now and then
            if rng.chance(1, 2) && cands.len() > 2 {
                let a = cands[0];
                if let Some(i) = cands.iter().position(|&c| c != a && ((c & 7) == (a & 7) || (c >> 3) == (a >> 3))) {
                    cands.swap(1, i);
                }
            }
            for s in cands.iter().take(n) {
                p.sq[*s as usize] = pc(k, WHITE);
            }
            if rng.chance(1, 2) {
                p.sq[t as usize] = pc(*rng.pick(&[N, B, R, P]), BLACK);
                if kind(p.sq[t as usize]) == P && (t >> 3 == 0 || t >> 3 == 7) {
                    p.sq[t as usize] = pc(N, BLACK);
                }
            }
            let mut reserved = bit(t);
            for s in cands.iter().take(n) {
                reserved |= bit(*s);
            }
            if !place_king_somewhere(rng, &mut p, WHITE, reserved) {
                return None;
            }
            if !place_king_somewhere(rng, &mut p, BLACK, reserved) {
                return None;
            }
            let kk = bit(p.king_sq(WHITE)?) | bit(p.king_sq(BLACK)?);
            add_noise(rng, &mut p, reserved | kk, 4);
            p.stm = WHITE;
            if p.in_check(BLACK) {
                return None;
            }
            finish(rng, Start::plain(p, tag))
        }
        11 => {
            // mating nets / stalemates with many attackers around a cornered or edge king
            let corner = *rng.pick(&[0u8, 7, 56, 63, 3, 59, 24, 31]);
            p.sq[corner as usize] = pc(K, BLACK);
            let (kf, kr) = fr(corner);
            let n = rng.range(2, 6);
            for _ in 0..n {
                let k = *rng.pick(&[Q, R, B, N, P, Q, R]);
                for _ in 0..20 {
                    let s = mk(kf + rng.range(0, 6) as i8 - 3, kr + rng.range(0, 6) as i8 - 3);
                    if let Some(s) = s {
                        if p.sq[s as usize] == 0 && !(k == P && (s >> 3 == 0 || s >> 3 == 7)) {
                            p.sq[s as usize] = pc(k, WHITE);
                            break;
                        }
                    }
                }
            }
            if rng.chance(1, 2) {
                // some black men that may be stuck
                for _ in 0..rng.below(4) {
                    let k = *rng.pick(&[P, P, N, B]);
                    let s = mk(kf + rng.range(0, 4) as i8 - 2, kr + rng.range(0, 4) as i8 - 2);
                    if let Some(s) = s {
                        if p.sq[s as usize] == 0 && !(k == P && (s >> 3 == 0 || s >> 3 == 7)) {
                            p.sq[s as usize] = pc(k, BLACK);
                        }
                    }
                }
            }
            if !place_king_somewhere(rng, &mut p, WHITE, 0) {
                return None;
            }
            p.stm = rng.below(2) as u8;
            if p.in_check(p.stm ^ 1) {
                p.stm ^= 1;
            }
            finish(rng, Start::plain(p, tag))
        }
        13 => {
            // two e.p. capturers, one possibly pinned; pushed pawn possibly protected
            let bf = rng.range(1, 6) as i8;
            p.sq[sqm(bf, 6) as usize] = pc(P, BLACK);
            p.sq[sqm(bf - 1, 4) as usize] = pc(P, WHITE);
            p.sq[sqm(bf + 1, 4) as usize] = pc(P, WHITE);
            let mut reserved = bit(sqm(bf, 6)) | bit(sqm(bf, 5)) | bit(sqm(bf, 4));
            if !place_king_somewhere(rng, &mut p, WHITE, reserved) {
                return None;
            }
            if !place_king_somewhere(rng, &mut p, BLACK, reserved) {
                return None;
            }
            reserved |= bit(p.king_sq(WHITE)?) | bit(p.king_sq(BLACK)?);
            add_noise(rng, &mut p, reserved, 10);
            p.stm = BLACK;
            finish(rng, Start { pos: p, prelude: vec![RMove::new(sqm(bf, 6), sqm(bf, 4), 0)], tag })
        }
        16 => {
            // castling available while an e.p. capture is pending (the opponent just double-pushed beside a pawn)
            p.sq[4] = pc(K, WHITE);
            let wings = rng.range(1, 3);
            if wings & 1 != 0 {
                p.sq[7] = pc(R, WHITE);
                p.castle |= WK;
            }
            if wings & 2 != 0 {
                p.sq[0] = pc(R, WHITE);
                p.castle |= WQ;
            }
            let bf = rng.range(0, 7) as i8;
            let wf = bf + *rng.pick(&[-1i8, 1]);
            if wf < 0 || wf > 7 {
                return None;
            }
            p.sq[sqm(bf, 6) as usize] = pc(P, BLACK);
            p.sq[sqm(wf, 4) as usize] = pc(P, WHITE);
            let mut reserved = 0xffu64 | bit(sqm(bf, 6)) | bit(sqm(bf, 5)) | bit(sqm(bf, 4)) | bit(sqm(wf, 5));
            if rng.chance(1, 2) {
                p.sq[60] = pc(K, BLACK);
                if rng.chance(1, 2) {
                    p.sq[63] = pc(R, BLACK);
                    p.castle |= BK;
                }
                if rng.chance(1, 2) {
                    p.sq[56] = pc(R, BLACK);
                    p.castle |= BQ;
                }
                reserved |= 0xffu64 << 56;
            } else if !place_king_somewhere(rng, &mut p, BLACK, reserved | 0xff00) {
                return None;
            }
            reserved |= bit(p.king_sq(BLACK)?);
            add_noise(rng, &mut p, reserved, 6);
            p.stm = BLACK;
            finish(rng, Start { pos: p, prelude: vec![RMove::new(sqm(bf, 6), sqm(bf, 4), 0)], tag })
        }
        17 => {
            // stalemates with many men on the board (hemmed-in pieces, also a queen)
            let (q, _) = hemmed_in(rng, false)?;
            finish(rng, Start::plain(q, tag))
        }
        18 if rng.chance(2, 5) => {
            // sub-variant: the double push gives CHECK and capturing the checking pawn en passant is the only
            // legal reply (a generator that loses that capture reports mate).  Found by search: white king on
            // its fourth rank beside the push file, capturer on the fifth, black men around.
            let tries = if cfg!(miri) { 2 } else { 4000 };
            for _ in 0..tries {
                let mut q = RPos::empty();
                let g = rng.below(8) as i8;
                let kf = g + *rng.pick(&[-1i8, 1]);
                let f = g + *rng.pick(&[-1i8, 1]);
                if kf < 0 || kf > 7 || f < 0 || f > 7 {
                    continue;
                }
                q.sq[sqm(kf, 3) as usize] = pc(K, WHITE);
                q.sq[sqm(f, 4) as usize] = pc(P, WHITE);
                q.sq[sqm(g, 6) as usize] = pc(P, BLACK);
                if rng.chance(1, 3) && f != 2 * g - f && 2 * g - f >= 0 && 2 * g - f < 8 {
                    q.sq[sqm(2 * g - f, 4) as usize] = pc(P, WHITE);
                }
                let keep = bit(sqm(g, 5)) | bit(sqm(g, 4));
                // black men near the king take its squares away and protect the pawn's landing square
                for _ in 0..rng.range(3, 7) {
                    let s = mk(kf + rng.range(0, 6) as i8 - 3, 3 + rng.range(0, 6) as i8 - 3);
                    if let Some(s) = s {
                        if q.sq[s as usize] == 0 && keep & bit(s) == 0 {
                            let k = *rng.pick(&[Q, R, R, B, N, N, P]);
                            let k = if k == P && (s >> 3 == 0 || s >> 3 == 7) { N } else { k };
                            q.sq[s as usize] = pc(k, BLACK);
                        }
                    }
                }
                // own men beside the king block flight squares
                for _ in 0..rng.below(3) {
                    if let Some(s) = mk(kf + rng.range(0, 2) as i8 - 1, 3 + rng.range(0, 2) as i8 - 1) {
                        if q.sq[s as usize] == 0 && keep & bit(s) == 0 {
                            q.sq[s as usize] = pc(*rng.pick(&[P, P, N, B]), WHITE);
                        }
                    }
                }
                if !place_king_somewhere(rng, &mut q, BLACK, keep) {
                    continue;
                }
                q.stm = BLACK;
                let push = RMove::new(sqm(g, 6), sqm(g, 4), 0);
                if !q.valid() || !q.is_legal(push) {
                    continue;
                }
                let after = q.make(push);
                if !after.in_check(WHITE) {
                    continue;
                }
                let lm = after.legal_moves();
                if lm.is_empty() || !lm.iter().all(|m| after.is_ep_capture(*m)) {
                    continue;
                }
                return finish(rng, Start { pos: q, prelude: vec![push], tag });
            }
            None
        }
        18 => {
            // the only legal move is an en-passant capture: a hemmed-in side with one blocked pawn on its
            // fifth rank; the opponent double-pushes beside it
            let (mut q, pf) = hemmed_in(rng, true)?;
            let f = pf?;
            // (in the pinned variant the pawn stands on e5 and the capture must run towards the pinner on g7/h8)
            let pinned_variant = f == 4 && (q.sq[sqm(6, 6) as usize] & 7 == B || q.sq[sqm(6, 6) as usize] & 7 == Q || q.sq[sqm(7, 7) as usize] & 7 == B || q.sq[sqm(7, 7) as usize] & 7 == Q);
            // (second pinned sub-variant: the push comes on the d-file, where the pinned e5 pawn may NOT
            // capture - off the pin line - while a second pawn on c5 may: two capturers, one of them illegal,
            // and that capture is the only legal move)
            let two_capturers = pinned_variant && rng.chance(1, 2);
            let g = if two_capturers { 3 } else if pinned_variant { 5 } else { f + *rng.pick(&[-1i8, 1]) };
            if g < 0 || g > 7 {
                return None;
            }
            if two_capturers {
                if q.sq[sqm(2, 4) as usize] != 0 || q.sq[sqm(2, 5) as usize] != 0 {
                    return None;
                }
                q.sq[sqm(2, 4) as usize] = pc(P, WHITE);
                q.sq[sqm(2, 5) as usize] = pc(*rng.pick(&[P, N, B]), BLACK);
                if q.has_legal_move() {
                    return None;
                }
            }
            if q.sq[sqm(g, 6) as usize] != 0 || q.sq[sqm(g, 5) as usize] != 0 || q.sq[sqm(g, 4) as usize] != 0 {
                return None;
            }
            q.sq[sqm(g, 6) as usize] = pc(P, BLACK);
            q.stm = BLACK;
            let push = RMove::new(sqm(g, 6), sqm(g, 4), 0);
            if !q.valid() || !q.is_legal(push) {
                return None;
            }
            let after = q.make(push);
            let lm = after.legal_moves();
            if !(lm.len() == 1 && after.is_ep_capture(lm[0])) {
                return None;
            }
            finish(rng, Start { pos: q, prelude: vec![push], tag })
        }
        19 => {
            // set up directly (not reachable by play): White is in check by a slider whose line runs over
            // the en-passant target square, so the capture would interpose; or in check by a knight /
            // another pawn, where the capture does not help
            let x = rng.range(0, 7) as i8;
            let wf = x + *rng.pick(&[-1i8, 1]);
            if wf < 0 || wf > 7 {
                return None;
            }
            p.sq[sqm(x, 4) as usize] = pc(P, BLACK);
            p.sq[sqm(wf, 4) as usize] = pc(P, WHITE);
            let target = sqm(x, 5);
            let mut reserved = bit(target) | bit(sqm(x, 6)) | bit(sqm(x, 4)) | bit(sqm(wf, 4));
            match rng.below(3) {
                0 | 1 => {
                    let d = *rng.pick(&[(1i8, 0i8), (-1, 0), (1, 1), (-1, 1), (1, -1), (-1, -1)]);
                    let k = mk(x - d.0 * rng.range(1, 3) as i8, 5 - d.1 * rng.range(1, 3) as i8)?;
                    let s = mk(x + d.0 * rng.range(1, 3) as i8, 5 + d.1 * rng.range(1, 3) as i8)?;
                    // both must really be on the line through the target
                    let (kf, kr) = fr(k);
                    let (sf, sr) = fr(s);
                    let on = |f: i8, r: i8| (f - x) * d.1 == (r - 5) * d.0 && (f, r) != (x, 5);
                    if !on(kf, kr) || !on(sf, sr) || p.sq[k as usize] != 0 || p.sq[s as usize] != 0 {
                        return None;
                    }
                    let diag = d.0 != 0 && d.1 != 0;
                    p.sq[k as usize] = pc(K, WHITE);
                    p.sq[s as usize] = pc(if diag { *rng.pick(&[B, Q]) } else { *rng.pick(&[R, Q]) }, BLACK);
                    reserved |= ray_set(k, d) | bit(k);
                }
                _ => {
                    if !place_king_somewhere(rng, &mut p, WHITE, reserved) {
                        return None;
                    }
                    let k = p.king_sq(WHITE)?;
                    let (kf, kr) = fr(k);
                    let dj = *rng.pick(&KN);
                    let s = mk(kf + dj.0, kr + dj.1)?;
                    if p.sq[s as usize] != 0 || reserved & bit(s) != 0 {
                        return None;
                    }
                    p.sq[s as usize] = pc(N, BLACK);
                    reserved |= bit(k) | bit(s);
                }
            }
            if !place_king_somewhere(rng, &mut p, BLACK, reserved) {
                return None;
            }
            reserved |= bit(p.king_sq(BLACK)?);
            add_noise(rng, &mut p, reserved, 6);
            p.stm = WHITE;
            p.ep = Some(target);
            if p.checkers().count_ones() != 1 {
                return None;
            }
            finish(rng, Start::plain(p, tag))
        }
        20 => special_move_ends_game(rng).and_then(|st| finish(rng, st)),
        21 => illegal_ep_ends_game(rng).and_then(|st| finish(rng, st)),
        22 => many_lined_up_sliders(rng).and_then(|st| finish(rng, st)),
        _ => None,
    }
}

/// Not a valid chess position (more than sixteen men), but one the library accepts: the side to move owns
/// 12-24 queens and rooks spread over an otherwise empty board and has 220-400 legal moves.  "Arbitrary
/// positions" of the text-facing properties; buffers sized for the 218 moves of the record position end here.
pub fn many_moves_position(rng: &mut Rng) -> RPos {
    loop {
        let mut p = RPos::empty();
        let bk = *rng.pick(&[0u8, 7, 56, 63]);
        p.sq[bk as usize] = pc(K, BLACK);
        let n = rng.range(12, 24);
        for i in 0..n + 1 {
            for _ in 0..20 {
                let s = rng.below(64) as u8;
                let (f, r, kf, kr) = ((s & 7) as i8, (s >> 3) as i8, (bk & 7) as i8, (bk >> 3) as i8);
                if p.sq[s as usize] != 0 || ((f - kf).abs() <= 1 && (r - kr).abs() <= 1) {
                    continue;
                }
                p.sq[s as usize] = pc(if i == 0 { K } else { *rng.pick(&[Q, Q, Q, R, B]) }, WHITE);
                break;
            }
        }
        p.stm = WHITE;
        for _ in 0..64 {
            let att = p.attackers(bk, WHITE);
            if att == 0 {
                break;
            }
            p.sq[att.trailing_zeros() as usize] = 0;
        }
        if p.attackers(bk, WHITE) != 0 || p.king_sq(WHITE).is_none() {
            continue;
        }
        if rng.chance(1, 2) {
            p = p.mirror_v();
        }
        return p;
    }
}

/// A valid position whose FEN is as long as FEN gets: men on one colour of a checkerboard (no two
/// adjacent empty squares merge into one digit), kings and rooks at home with all four rights, and an
/// e.p. square where one can be set up.  Rendering buffers sized for "typical" positions end here.
pub fn long_fen_position(rng: &mut Rng) -> Option<RPos> {
    for _ in 0..60 {
        let mut p = RPos::empty();
        p.sq[4] = pc(K, WHITE);
        p.sq[60] = pc(K, BLACK);
        for (s, c) in [(0u8, WHITE), (7, WHITE), (56, BLACK), (63, BLACK)].iter() {
            if rng.chance(9, 10) {
                p.sq[*s as usize] = pc(R, *c);
            }
        }
        let par = rng.below(2) as u8;
        let fill = rng.range(70, 98) as u64;
        for s in 0..64u8 {
            let (f, r) = ((s & 7), (s >> 3));
            if p.sq[s as usize] != 0 || (f + r) % 2 != par || !rng.chance(fill, 100) {
                continue;
            }
            // never next to the castling paths' own squares being attacked matters not: only validity does
            let c = if rng.chance(4, 5) { if r < 4 { WHITE } else { BLACK } } else { rng.below(2) as u8 };
            if p.men(c) >= 16 {
                continue;
            }
            let mut kd = *rng.pick(&[P, P, P, N, B, Q, R, N, B]);
            if kd == P && (r == 0 || r == 7 || p.count(pc(P, c)) >= 8) {
                kd = N;
            }
            p.sq[s as usize] = pc(kd, c);
        }
        p.castle = if rng.chance(3, 4) { 15 } else { rng.below(16) as u8 };
        p.stm = rng.below(2) as u8;
        fix_rights(&mut p);
        // an e.p. square, set up directly: a pawn of the side that just moved on its fourth rank, the two squares behind it empty
        if rng.chance(3, 4) {
            let them = p.stm ^ 1;
            let (r4, r3, r2) = if them == WHITE { (3i8, 2i8, 1i8) } else { (4, 5, 6) };
            let mut files: Vec<i8> = (0..8).collect();
            rng.shuffle(&mut files);
            for f in files {
                if p.sq[sqm(f, r3) as usize] == 0 && p.sq[sqm(f, r2) as usize] == 0 && (p.sq[sqm(f, r4) as usize] == 0 || p.sq[sqm(f, r4) as usize] == pc(P, them)) && p.count(pc(P, them)) < 8 {
                    p.sq[sqm(f, r4) as usize] = pc(P, them);
                    p.ep = Some(sqm(f, r3));
                    break;
                }
            }
        }
        if p.men(WHITE) > 16 || p.men(BLACK) > 16 || p.count(pc(P, WHITE)) > 8 || p.count(pc(P, BLACK)) > 8 {
            continue;
        }
        if p.in_check(p.stm ^ 1) {
            p.stm ^= 1;
            p.ep = None;
        }
        if p.valid() {
            return Some(p);
        }
    }
    None
}

/// Many enemy sliders lined up with one king (promoted queens, rooks and bishops, several per ray, most
/// of them behind blockers): pin and check scans that assume "a king is on eight lines, so at most
/// eight candidates" or "at most two men per ray matter" meet up to fifteen candidates here.
fn many_lined_up_sliders(rng: &mut Rng) -> Option<Start> {
    let tag = SCEN_NAMES[22];
    for _ in 0..60 {
        let mut p = RPos::empty();
        let k = sqm(rng.range(1, 6) as i8, rng.range(1, 6) as i8);
        let victim = WHITE;
        p.sq[k as usize] = pc(K, victim);
        let (kf, kr) = fr(k);
        let mut sliders = 0usize;
        let target = rng.range(6, 14);
        let mut rays: Vec<(i8, i8)> = KG.to_vec();
        rng.shuffle(&mut rays);
        let open_ray = if rng.chance(1, 3) { Some(rng.below(8)) } else { None };
        for (i, d) in rays.iter().enumerate() {
            let diag = d.0 != 0 && d.1 != 0;
            // squares of the ray, nearest first
            let mut sq: Vec<Sq> = vec![];
            let (mut f, mut r) = (kf + d.0, kr + d.1);
            while let Some(s) = mk(f, r) {
                sq.push(s);
                f += d.0;
                r += d.1;
            }
            if sq.len() < 2 {
                continue;
            }
            // a blocker next to the king (own man: a pin candidate; enemy knight/pawn: no pin), except on
            // one ray now and then, where the nearest slider gives check
            let mut start = 0;
            if open_ray != Some(i) {
                let bs = sq[rng.below(2.min(sq.len() - 1))];
                let own = rng.chance(2, 3);
                let kind_b = if own { *rng.pick(&[N, B, R, P, Q]) } else { N };
                let kind_b = if kind_b == P && (bs >> 3 == 0 || bs >> 3 == 7) { N } else { kind_b };
                p.sq[bs as usize] = pc(kind_b, if own { victim } else { victim ^ 1 });
                start = sq.iter().position(|x| *x == bs).unwrap() + 1;
            }
            let n = rng.range(1, 3);
            for s in sq.iter().skip(start) {
                if sliders >= target || p.men(victim ^ 1) >= 15 {
                    break;
                }
                if rng.chance(3, 4) && p.sq[*s as usize] == 0 {
                    let kd = if diag { *rng.pick(&[B, Q, Q]) } else { *rng.pick(&[R, Q, Q]) };
                    p.sq[*s as usize] = pc(kd, victim ^ 1);
                    sliders += 1;
                    if sliders % 4 == 0 && n == 1 {
                        break;
                    }
                }
            }
        }
        if sliders < 5 {
            continue;
        }
        let reserved = 0u64;
        if !place_king_somewhere(rng, &mut p, victim ^ 1, reserved) {
            continue;
        }
        // either the victim is to move (pins and checks computed when the position is built), or the other
        // side is and passes / makes a quiet move first
        p.stm = if rng.chance(1, 2) { victim } else { victim ^ 1 };
        if p.in_check(p.stm ^ 1) {
            p.stm ^= 1;
        }
        if !p.valid() {
            continue;
        }
        return Some(Start::plain(p, tag));
    }
    None
}

/// Search-based workload: Black's double step ends the game (stalemate, or mate by a discovered or
/// direct check) although White still has a pseudo-legal en-passant capture: that capture is illegal
/// because capturer and captured pawn together shield the white king from a rook or queen on their
/// rank (neither pawn is "pinned" in the ordinary sense), or because the capturer is pinned.
fn illegal_ep_ends_game(rng: &mut Rng) -> Option<Start> {
    let tag = SCEN_NAMES[21];
    for _ in 0..(if cfg!(miri) { 4 } else { 400 }) {
        let mut p = RPos::empty();
        let kf = rng.range(0, 2) as i8;
        let a = kf + 1 + rng.below(2) as i8;
        let b = a + 1;
        let (wf, x) = if rng.chance(1, 2) { (a, b) } else { (b, a) };
        let rf = b + 1 + rng.below((7 - b) as usize) as i8;
        if rf > 7 {
            continue;
        }
        let ordinary_pin = rng.chance(1, 4);
        p.sq[sqm(kf, 4) as usize] = pc(K, WHITE);
        p.sq[sqm(wf, 4) as usize] = pc(P, WHITE);
        p.sq[sqm(x, 6) as usize] = pc(P, BLACK);
        let mut reserved = bit(sqm(x, 6)) | bit(sqm(x, 5)) | bit(sqm(x, 4));
        for f in kf..=rf {
            reserved |= bit(sqm(f, 4));
        }
        if ordinary_pin {
            // the capturer is pinned on its file instead: king below it, rook above
            p.sq[sqm(kf, 4) as usize] = 0;
            let kr = rng.range(1, 3) as i8;
            p.sq[sqm(wf, kr) as usize] = pc(K, WHITE);
            p.sq[sqm(wf, rng.range(5, 7) as i8) as usize] = pc(*rng.pick(&[R, Q]), BLACK);
            for r in 0..8 {
                reserved |= bit(sqm(wf, r));
            }
        } else {
            p.sq[sqm(rf, 4) as usize] = pc(*rng.pick(&[R, Q]), BLACK);
            // the white pawn must not be able to step forward
            p.sq[sqm(wf, 5) as usize] = pc(*rng.pick(&[P, N, B]), BLACK);
        }
        reserved |= bit(sqm(wf, 5));
        let k = p.king_sq(WHITE)?;
        let (kx, ky) = fr(k);
        // black men around the white king
        for _ in 0..rng.range(3, 7) {
            let kd = *rng.pick(&[Q, R, B, N, P, N, B, R]);
            for _ in 0..10 {
                if let Some(s) = mk(kx + rng.range(0, 6) as i8 - 3, ky + rng.range(0, 6) as i8 - 3) {
                    if p.sq[s as usize] == 0 && reserved & bit(s) == 0 && !(kd == P && (s >> 3 == 0 || s >> 3 == 7)) && p.men(BLACK) < 15 {
                        p.sq[s as usize] = pc(kd, BLACK);
                        break;
                    }
                }
            }
        }
        // now and then a blocked white pawn elsewhere
        if rng.chance(1, 3) {
            let f = rng.range(0, 7) as i8;
            let r = rng.range(1, 5) as i8;
            if p.sq[sqm(f, r) as usize] == 0 && p.sq[sqm(f, r + 1) as usize] == 0 && reserved & (bit(sqm(f, r)) | bit(sqm(f, r + 1))) == 0 {
                p.sq[sqm(f, r) as usize] = pc(P, WHITE);
                p.sq[sqm(f, r + 1) as usize] = pc(*rng.pick(&[P, N]), BLACK);
            }
        }
        if !place_king_somewhere(rng, &mut p, BLACK, reserved) {
            continue;
        }
        p.stm = BLACK;
        let push = RMove::new(sqm(x, 6), sqm(x, 4), 0);
        if !p.valid() || !p.is_legal(push) {
            continue;
        }
        let after = p.make(push);
        if after.has_legal_move() || !after.pseudo().iter().any(|m| after.is_ep_capture(*m)) {
            continue;
        }
        return Some(Start { pos: p, prelude: vec![push], tag });
    }
    None
}

/// Search-based workload: a *special* move (en-passant capture, castling, promotion) by White ends the
/// game - mate or stalemate - against a hemmed-in black king.  Candidates are drawn around the motif
/// and kept only if the model says the position after the move has no legal move.  Half of the
/// instances carry the final move in the prelude (the terminal position itself is visited), half
/// leave it to the monitors' fan-out / look-ahead.
fn special_move_ends_game(rng: &mut Rng) -> Option<Start> {
    let tag = SCEN_NAMES[20];
    for _ in 0..(if cfg!(miri) { 4 } else { 60 }) {
        let mut p = RPos::empty();
        let mut prelude: Vec<RMove> = vec![];
        let fin: RMove;
        let kind_of = rng.below(6);
        let bk: Sq;
        let mut reserved: u64 = 0;
        match kind_of {
            0 | 1 | 2 => {
                // e.p.: black pawn x7-x5, white pawn on the fifth rank beside it captures onto x6
                let x = rng.range(0, 7) as i8;
                let wf = x + *rng.pick(&[-1i8, 1]);
                if wf < 0 || wf > 7 {
                    continue;
                }
                p.sq[sqm(x, 6) as usize] = pc(P, BLACK);
                p.sq[sqm(wf, 4) as usize] = pc(P, WHITE);
                reserved |= bit(sqm(x, 6)) | bit(sqm(x, 5)) | bit(sqm(x, 4)) | bit(sqm(wf, 4));
                // the king: attacked by the pawn arriving on x6 (kinds 0, 1), or anywhere near (2: the mate
                // then has to come from a line opened by the capture)
                let k = if kind_of < 2 { mk(x + *rng.pick(&[-1i8, 1]), 6) } else { mk(x + rng.range(0, 4) as i8 - 2, rng.range(4, 7) as i8) };
                let k = match k {
                    Some(k) if p.sq[k as usize] == 0 && reserved & bit(k) == 0 => k,
                    _ => continue,
                };
                bk = k;
                prelude.push(RMove::new(sqm(x, 6), sqm(x, 4), 0));
                fin = RMove::new(sqm(wf, 4), sqm(x, 5), 0);
            }
            3 => {
                // castling: the rook arrives on f1 / d1 and checks along the file
                let short = rng.chance(1, 2);
                p.sq[4] = pc(K, WHITE);
                p.sq[if short { 7 } else { 0 }] = pc(R, WHITE);
                p.castle = if short { WK } else { WQ };
                let file = if short { 5 } else { 3 };
                bk = sqm(file + if rng.chance(1, 4) { *rng.pick(&[-1i8, 1]) } else { 0 }, rng.range(2, 7) as i8);
                reserved |= bit(4) | bit(5) | bit(6) | bit(3) | bit(2) | bit(1) | bit(0) | bit(7);
                for r in 1..8 {
                    reserved |= bit(sqm(file, r));
                }
                fin = RMove::new(4, if short { 6 } else { 2 }, 0);
            }
            _ => {
                // promotion (also under-promotion, also with capture) next to a king on the back rank
                let x = rng.range(0, 7) as i8;
                p.sq[sqm(x, 6) as usize] = pc(P, WHITE);
                let cap = rng.chance(1, 3);
                let tx = if cap { x + *rng.pick(&[-1i8, 1]) } else { x };
                if tx < 0 || tx > 7 {
                    continue;
                }
                if cap {
                    p.sq[sqm(tx, 7) as usize] = pc(*rng.pick(&[N, B, R, Q]), BLACK);
                }
                reserved |= bit(sqm(x, 6)) | bit(sqm(tx, 7)) | bit(sqm(x, 7));
                let k = match mk(tx + *rng.pick(&[-2i8, -1, 1, 2, 2, -2]), *rng.pick(&[7i8, 7, 6])) {
                    Some(k) if p.sq[k as usize] == 0 && reserved & bit(k) == 0 => k,
                    _ => continue,
                };
                bk = k;
                fin = RMove::new(sqm(x, 6), sqm(tx, 7), *rng.pick(&[Q, Q, R, B, N, N]));
            }
        }
        p.sq[bk as usize] = pc(K, BLACK);
        reserved |= bit(bk);
        let (kf, kr) = fr(bk);
        // black men on some neighbouring squares (they take flight squares away)
        for d in KG.iter() {
            if let Some(s) = mk(kf + d.0, kr + d.1) {
                if p.sq[s as usize] == 0 && reserved & bit(s) == 0 && rng.chance(2, 5) {
                    let k = *rng.pick(&[P, P, N, B, R]);
                    if !(k == P && (s >> 3 == 0 || s >> 3 == 7)) {
                        p.sq[s as usize] = pc(k, BLACK);
                    }
                }
            }
        }
        // white men around
        for _ in 0..rng.range(2, 5) {
            let k = *rng.pick(&[Q, R, B, N, R, Q, P]);
            for _ in 0..10 {
                if let Some(s) = mk(kf + rng.range(0, 8) as i8 - 4, kr + rng.range(0, 8) as i8 - 4) {
                    if p.sq[s as usize] == 0 && reserved & bit(s) == 0 && !(k == P && (s >> 3 == 0 || s >> 3 == 7)) {
                        p.sq[s as usize] = pc(k, WHITE);
                        break;
                    }
                }
            }
        }
        if p.king_sq(WHITE).is_none() && !place_king_somewhere(rng, &mut p, WHITE, reserved) {
            continue;
        }
        p.stm = if prelude.is_empty() { WHITE } else { BLACK };
        if !p.valid() {
            continue;
        }
        let mut q = p.clone();
        let mut ok = true;
        for m in prelude.iter() {
            if !q.is_legal(*m) {
                ok = false;
                break;
            }
            q = q.make(*m);
        }
        if !ok || !q.is_legal(fin) {
            continue;
        }
        let end = q.make(fin);
        if end.has_legal_move() {
            continue;
        }
        if rng.chance(1, 2) {
            prelude.push(fin);
        }
        return Some(Start { pos: p, prelude, tag });
    }
    None
}

/// Search-based workload: a position in which White (to move) is stalemated although it still owns
/// several men (hemmed-in pieces, blocked pawns).  `want_pawn_file`: additionally White owns a pawn on
/// its fifth rank... (used by the only-move-is-e.p. recipe, see there).
fn hemmed_in(rng: &mut Rng, extra_pawn: bool) -> Option<(RPos, Option<i8>)> {
    for _ in 0..(if cfg!(miri) { 3 } else { 80 }) {
        let mut p = RPos::empty();
        // variant: the extra pawn (on e5) is pinned along the diagonal a1-h8 by a bishop/queen beyond f6,
        // so that its only move will be the e.p. capture along the pin line
        let pin = extra_pawn && rng.chance(1, 3);
        let pin_king: Sq = if rng.chance(1, 2) { 0 } else { 9 };
        let forbidden: u64 = if pin { (bit(9) | bit(18) | bit(27)) & !bit(pin_king) } else { 0 };
        // White's cluster lives in a 3x3 or 4x3 block in the a1 corner (mirrored later by `finish`)
        let w = rng.range(2, 4) as i8;
        let h = rng.range(2, 3) as i8;
        let mut cells: Vec<Sq> = vec![];
        for f in 0..w {
            for r in 0..h {
                cells.push(sqm(f, r));
            }
        }
        rng.shuffle(&mut cells);
        if pin {
            cells.retain(|s| forbidden & bit(*s) == 0 && *s != pin_king);
            cells.insert(0, pin_king);
        }
        let nmen = rng.range(2, cells.len().min(7).max(2));
        let mut have_q = false;
        for (i, s) in cells.iter().take(nmen).enumerate() {
            let k = if i == 0 {
                K
            } else {
                let c = *rng.pick(&[P, P, P, N, B, R, Q, N]);
                if c == Q {
                    if have_q {
                        P
                    } else {
                        have_q = true;
                        Q
                    }
                } else {
                    c
                }
            };
            let k = if k == P && s >> 3 == 0 { N } else { k };
            p.sq[*s as usize] = pc(k, WHITE);
        }
        // black pawns / men directly in front of the white pawns
        for s in 0..64u8 {
            if p.sq[s as usize] == pc(P, WHITE) {
                let t = s + 8;
                if p.sq[t as usize] == 0 {
                    p.sq[t as usize] = pc(*rng.pick(&[P, P, N, B]), BLACK);
                }
            }
        }
        let mut pawn_file = None;
        if extra_pawn {
            // a white pawn on its fifth rank, blocked by a black man, away from the cluster
            let f = if pin { 4 } else { rng.range((w as usize + 1).min(6), 6) as i8 };
            if p.sq[sqm(f, 4) as usize] != 0 || p.sq[sqm(f, 5) as usize] != 0 {
                continue;
            }
            if pin {
                if p.sq[sqm(5, 5) as usize] != 0 || p.sq[18] != 0 || p.sq[27] != 0 || (pin_king == 0 && p.sq[9] != 0) {
                    continue;
                }
                let s = if rng.chance(1, 2) { sqm(6, 6) } else { sqm(7, 7) };
                if p.sq[s as usize] != 0 || p.sq[sqm(6, 6) as usize] != 0 {
                    continue;
                }
                p.sq[s as usize] = pc(*rng.pick(&[B, Q]), BLACK);
            }
            p.sq[sqm(f, 4) as usize] = pc(P, WHITE);
            p.sq[sqm(f, 5) as usize] = pc(*rng.pick(&[P, N, B]), BLACK);
            pawn_file = Some(f);
        }
        // black pieces taking away the remaining squares
        let nb = rng.range(1, 4);
        for _ in 0..nb {
            let s = sqm(rng.below((w + 2).min(8) as usize) as i8, rng.range(1, (h + 2).min(7) as usize) as i8);
            if p.sq[s as usize] == 0 {
                p.sq[s as usize] = pc(*rng.pick(&[Q, R, N, B, P]), BLACK);
                if kind(p.sq[s as usize]) == P && (s >> 3 == 0 || s >> 3 == 7) {
                    p.sq[s as usize] = pc(N, BLACK);
                }
            }
        }
        // black king somewhere far
        let mut placed = false;
        for _ in 0..20 {
            let s = sqm(rng.range(4, 7) as i8, rng.range(3, 7) as i8);
            if p.sq[s as usize] == 0 {
                p.sq[s as usize] = pc(K, BLACK);
                placed = true;
                break;
            }
        }
        if !placed {
            continue;
        }
        p.stm = WHITE;
        if !p.valid() || p.in_check(WHITE) {
            continue;
        }
        if extra_pawn {
            // apart from possible moves of nothing: everything must be immobile
            if p.has_legal_move() {
                continue;
            }
            return Some((p, pawn_file));
        }
        if !p.has_legal_move() {
            return Some((p, None));
        }
    }
    None
}

/// A synthesised position whose e.p. state is *set up directly* (FEN/builder) instead of being reached
/// by playing the push through the library: a pawn of the side that "just moved" on its fourth rank
/// with the two squares behind it empty, and a valid position before that push.
pub fn synth_ep_invented(rng: &mut Rng) -> Option<Start> {
    for _ in 0..40 {
        let d = *rng.pick(&[Density::Sparse, Density::Medium, Density::Medium, Density::Crowded]);
        let mut p = synth(rng, d);
        let mover = p.stm ^ 1;
        let (r4, r3, r2) = if mover == WHITE { (3i8, 2i8, 1i8) } else { (4i8, 5i8, 6i8) };
        let mut cands = vec![];
        for f in 0..8i8 {
            if p.sq[sqm(f, r4) as usize] == pc(P, mover) && p.sq[sqm(f, r3) as usize] == 0 && p.sq[sqm(f, r2) as usize] == 0 {
                cands.push(f);
            }
        }
        if cands.is_empty() {
            // make one: put a pawn there if the squares allow it
            let f = rng.below(8) as i8;
            if kind(p.sq[sqm(f, r4) as usize]) == K || kind(p.sq[sqm(f, r3) as usize]) == K || kind(p.sq[sqm(f, r2) as usize]) == K || p.count(pc(P, mover)) >= 8 {
                continue;
            }
            p.sq[sqm(f, r4) as usize] = pc(P, mover);
            p.sq[sqm(f, r3) as usize] = 0;
            p.sq[sqm(f, r2) as usize] = 0;
            // and often an enemy pawn beside it
            if rng.chance(2, 3) {
                if let Some(t) = mk(f + *rng.pick(&[-1i8, 1]), r4) {
                    if kind(p.sq[t as usize]) != K && p.count(pc(P, mover ^ 1)) < 8 {
                        p.sq[t as usize] = pc(P, mover ^ 1);
                    }
                }
            }
            fix_rights(&mut p);
            cands.push(f);
        }
        let f = *rng.pick(&cands);
        p.ep = Some(sqm(f, r3));
        // "directly after a double pawn push": the position before that push must itself be valid
        let mut pred = p.clone();
        pred.ep = None;
        pred.stm = mover;
        pred.sq[sqm(f, r4) as usize] = 0;
        pred.sq[sqm(f, r2) as usize] = pc(P, mover);
        // Literal reading of the quantifier ("en-passant state only directly after a double pawn push;
        // set up directly (FEN / builder)"): the listed conditions hold for `p`; whether the position
        // *before* the push was legal is not among them.  Half of the instances keep a valid predecessor,
        // the other half do not require it (the side to move may then be in check by any piece).
        if p.valid() && (pred.valid() || rng.chance(1, 2)) {
            return Some(Start::plain(p, if pred.valid() { "synth_ep_invented" } else { "synth_ep_invented_unreachable" }));
        }
    }
    None
}

/// Draw a scenario instance (retrying), round-robin over recipes by `idx`.
pub fn scenario_retry(rng: &mut Rng, idx: usize) -> Option<Start> {
    // (the search-based recipes cost seconds per draw in the interpreter: few draws there)
    for _ in 0..(if cfg!(miri) { 3 } else { 200 }) {
        if let Some(s) = scenario(rng, idx) {
            return Some(s);
        }
    }
    None
}
