//! W1: embedded seed corpus.  Every entry must be model-valid (checked at worker start).
use crate::refchess::RPos;

pub const CORPUS: &[&str] = &[
    // start position and the perft roots used by the repository's own tests
    "rnbqkbnr/pppppppp/8/8/8/8/PPPPPPPP/RNBQKBNR w KQkq - 0 1",
    "r3k2r/p1ppqpb1/bn2pnp1/3PN3/1p2P3/2N2Q1p/PPPBBPPP/R3K2R w KQkq - 0 1",
    "8/5bk1/8/2Pp4/8/1K6/8/8 w - d6 0 1",
    "8/8/1k6/8/2pP4/8/5BK1/8 b - d3 0 1",
    "8/8/1k6/2b5/2pP4/8/5K2/8 b - d3 0 1",
    "8/5k2/8/2Pp4/2B5/1K6/8/8 w - d6 0 1",
    "5k2/8/8/8/8/8/8/4K2R w K - 0 1",
    "4k2r/8/8/8/8/8/8/5K2 b k - 0 1",
    "3k4/8/8/8/8/8/8/R3K3 w Q - 0 1",
    "r3k3/8/8/8/8/8/8/3K4 b q - 0 1",
    "r3k2r/1b4bq/8/8/8/8/7B/R3K2R w KQkq - 0 1",
    "r3k2r/7b/8/8/8/8/1B4BQ/R3K2R b KQkq - 0 1",
    "r3k2r/8/3Q4/8/8/5q2/8/R3K2R b KQkq - 0 1",
    "r3k2r/8/5Q2/8/8/3q4/8/R3K2R w KQkq - 0 1",
    "2K2r2/4P3/8/8/8/8/8/3k4 w - - 0 1",
    "3K4/8/8/8/8/8/4p3/2k2R2 b - - 0 1",
    "8/8/1P2K3/8/2n5/1q6/8/5k2 b - - 0 1",
    "5K2/8/1Q6/2N5/8/1p2k3/8/8 w - - 0 1",
    "4k3/1P6/8/8/8/8/K7/8 w - - 0 1",
    "8/k7/8/8/8/8/1p6/4K3 b - - 0 1",
    "8/P1k5/K7/8/8/8/8/8 w - - 0 1",
    "8/8/8/8/8/k7/p1K5/8 b - - 0 1",
    "K1k5/8/P7/8/8/8/8/8 w - - 0 1",
    "8/8/8/8/8/p7/8/k1K5 b - - 0 1",
    "8/k1P5/8/1K6/8/8/8/8 w - - 0 1",
    "8/8/8/8/1k6/8/K1p5/8 b - - 0 1",
    "8/8/2k5/5q2/5n2/8/5K2/8 b - - 0 1",
    "8/5k2/8/5N2/5Q2/2K5/8/8 w - - 0 1",
    // chessprogramming.org perft positions 3-6
    "8/2p5/3p4/KP5r/1R3p1k/8/4P1P1/8 w - - 0 1",
    "r3k2r/Pppp1ppp/1b3nbN/nP6/BBP1P3/q4N2/Pp1P2PP/R2Q1RK1 w kq - 0 1",
    "r2q1rk1/pP1p2pp/Q4n2/bbp1p3/Np6/1B3NBn/pPPP1PPP/R3K2R b KQ - 0 1",
    "rnbq1k1r/pp1Pbppp/2p5/8/2B5/8/PPP1NnPP/RNBQK2R w KQ - 0 1",
    "r4rk1/1pp1qppp/p1np1n2/2b1p1B1/2B1P1b1/P1NP1N2/1PP1QPPP/R4RK1 w - - 0 1",
    // promotion races / under-promotion material
    "n1n5/PPPk4/8/8/8/8/4Kppp/5N1N b - - 0 1",
    "n1n5/PPPk4/8/8/8/8/4Kppp/5N1N w - - 0 1",
    "6k1/PPPPP3/8/8/8/8/3ppppp/1K6 w - - 0 1",
    "r1b1k1nr/1P4P1/8/8/8/8/1p4p1/R1B1K1NR w KQkq - 0 1",
    "1r2k2r/P6P/8/8/8/8/p6p/1R2K2R b Kk - 0 1",
    // en-passant rich pawn chains
    "4k3/pppppppp/8/PPPPPPPP/8/8/8/4K3 b - - 0 1",
    "4k3/8/8/8/pppppppp/8/PPPPPPPP/4K3 w - - 0 1",
    "4k3/p1p1p1p1/8/1P1P1P1P/1p1p1p1p/8/P1P1P1P1/4K3 w - - 0 1",
    "4k3/p1p1p1p1/8/1P1P1P1P/1p1p1p1p/8/P1P1P1P1/4K3 b - - 0 1",
    "k7/8/8/K1pP3r/8/8/8/8 w - c6 0 1",
    "8/8/8/8/k1Pp3R/8/8/K7 b - c3 0 1",
    "8/8/3k4/8/2pP4/8/B7/4K3 b - d3 0 1",
    "rnbqkbnr/ppp1pppp/8/8/3pP3/8/PPPP1PPP/RNBQKBNR b KQkq e3 0 1",
    "rnbqkbnr/pppp1ppp/8/3Pp3/8/8/PPP1PPPP/RNBQKBNR w KQkq e6 0 1",
    "8/2p5/8/KP1p3r/8/8/8/7k w - - 0 1",
    // partial castling rights, all kinds
    "r3k2r/8/8/8/8/8/8/R3K2R w KQkq - 0 1",
    "r3k2r/8/8/8/8/8/8/R3K2R b KQkq - 0 1",
    "r3k2r/8/8/8/8/8/8/R3K2R w Kq - 0 1",
    "r3k2r/8/8/8/8/8/8/R3K2R b Qk - 0 1",
    "r3k2r/pppppppp/8/8/8/8/PPPPPPPP/R3K2R w KQkq - 0 1",
    "r3k2r/p2pp2p/8/1B4b1/1b4B1/8/P2PP2P/R3K2R w KQkq - 0 1",
    "rn2k1nr/8/8/8/8/8/8/RN2K1NR w KQkq - 0 1",
    "4k2r/6b1/8/8/8/8/1B6/R3K3 w Qk - 0 1",
    // endgames, few men (transposition-rich)
    "8/8/4k3/8/8/3K4/8/R7 w - - 0 1",
    "8/8/4k3/8/8/3K4/8/Q7 b - - 0 1",
    "8/3k4/8/8/8/8/3K4/2BN4 w - - 0 1",
    "8/8/2k5/8/8/2K5/2P5/8 w - - 0 1",
    "4k3/8/8/8/8/8/8/R3K2R w KQ - 0 1",
    "r3k2r/8/8/8/8/8/8/4K3 b kq - 0 1",
    "8/1k6/8/8/3q4/8/5Q2/6K1 w - - 0 1",
    "6k1/5ppp/8/8/8/8/5PPP/R5K1 w - - 0 1",
    "8/8/8/7k/8/2n1N3/8/3K4 w - - 0 1",
    "7k/8/8/8/8/8/1r6/K7 w - - 0 1",
    "7k/5Q2/6K1/8/8/8/8/8 b - - 0 1",
    // middlegames with pins, discovered checks, many captures
    "r1bqk2r/pppp1ppp/2n2n2/2b1p3/2B1P3/2N2N2/PPPP1PPP/R1BQK2R w KQkq - 0 1",
    "r1bq1rk1/ppp2ppp/2np1n2/1B2p3/1b2P3/2NP1N2/PPP2PPP/R1BQ1RK1 w - - 0 1",
    "rnb1kbnr/pp1ppppp/8/q1p5/3P4/2N5/PPP1PPPP/R1BQKBNR w KQkq - 0 1",
    "r3r1k1/pp3pbp/1qp3p1/2B5/2BP2b1/Q1n2N2/P4PPP/3R1K1R w - - 0 1",
    "1k1r4/pp1b1R2/3q2pp/4p3/2B5/4Q3/PPP2B2/2K5 b - - 0 1",
    "3r1k2/4npp1/1ppr3p/p6P/P2PPPP1/1NR5/5K2/2R5 w - - 0 1",
    "2q1rr1k/3bbnnp/p2p1pp1/2pPp3/PpP1P1P1/1P2BNNP/2BQ1PRK/7R b - - 0 1",
    "r1b2rk1/2q1b1pp/p2ppn2/1p6/3QP3/1BN1B3/PPP3PP/R4RK1 w - - 0 1",
    "8/R7/2q5/8/4k3/8/2K5/1Q6 w - - 0 1",
    "q3k3/8/8/8/8/8/3PPP2/R3K2R w KQ - 0 1",
    "4k3/8/8/1b6/8/8/3PPP2/R3K2R w KQ - 0 1",
    "4k3/8/8/8/8/5n2/3PPP2/R3K2R w KQ - 0 1",
    "r3k2r/3ppp2/5N2/8/8/8/8/4K3 b kq - 0 1",
    // double-check / discovered-check material
    "4k3/8/8/8/4N3/8/8/4RK2 w - - 0 1",
    "3k4/8/8/1B6/8/8/3N4/3RK3 w - - 0 1",
    "r3k3/8/8/8/8/8/2p5/R3K3 b q - 0 1",
];

pub fn corpus_positions() -> Vec<RPos> {
    let mut v = vec![];
    let mut bad: Vec<String> = vec![];
    for f in CORPUS {
        let p = RPos::from_fen(f).unwrap_or_else(|| panic!("HARNESS: corpus fen unreadable: {}", f));
        if let Some(r) = p.valid_reason() {
            bad.push(format!("({}) {}", r, f));
            continue;
        }
        // plus colour mirror and (without castling rights) left-right mirror
        let mv = p.mirror_v();
        if mv.valid() {
            v.push(mv);
        }
        if p.castle == 0 {
            let mh = p.mirror_h();
            if mh.valid() {
                v.push(mh);
            }
        }
        v.push(p);
    }
    if !bad.is_empty() {
        panic!("HARNESS: corpus fens invalid: {}", bad.join(" | "));
    }
    v
}
