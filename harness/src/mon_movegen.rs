//! C14: the MoveGen iterator contract as a trace automaton (DESIGN appendix B.1).
use crate::conv::*;
use crate::corpus::corpus_positions;
use crate::mon_walk::pack;
use crate::refchess::*;
use crate::report::*;
use crate::rng::Rng;
use crate::walk::*;
use chess::{BitBoard, Board, ChessMove, MoveGen, EMPTY};

struct Automaton<'a> {
    fen: String,
    p: &'a RPos,
    legal: Vec<RMove>,
    /// removed (source, destination) pairs and exact removed moves
    removed_pairs: Vec<(Sq, Sq)>,
    removed_exact: Vec<RMove>,
    removed_masks: u64,
    yielded: Vec<RMove>,
    mask: u64,
    /// (claimed len, claimed size_hint, number yielded at that time, promotion-midway flag)
    claims: Vec<(usize, (usize, Option<usize>), usize, bool)>,
    seg_start: usize,
    trace: Vec<String>,
    dead: bool,
}

impl<'a> Automaton<'a> {
    fn excusable(&self, m: &RMove) -> bool {
        self.removed_pairs.contains(&(m.from, m.to)) || (self.removed_masks >> m.to) & 1 == 1
    }
    fn ctx(&self) -> String {
        format!("fen={} calls=[{}]", self.fen, self.trace.join(" "))
    }
    fn kind_of(&self, m: &RMove) -> &'static str {
        if self.p.is_ep_capture(*m) {
            "ep"
        } else if m.promo != 0 {
            "promotion"
        } else {
            "ordinary"
        }
    }

    fn query(&mut self, g: &MoveGen, rep: &mut Report) {
        let l = g.len();
        let sh = g.size_hint();
        rep.count("op_len");
        let mid = self.yielded.last().map_or(false, |m| m.promo != 0 && m.promo != B);
        // (the generator yields promotions in the order Q N R B: after Q, N or R it is mid-promotion)
        if mid {
            rep.count("ev_len_queries_mid_promotion");
        }
        if sh != (l, Some(l)) {
            rep.violation("C14/size_hint-differs-from-len", format!("len()={} size_hint()={:?} ; {}", l, sh, self.ctx()));
        }
        self.trace.push(format!("len={}", l));
        self.claims.push((l, sh, self.yielded.len(), mid));
    }

    /// Before a removal or a mask change the pending length claims can no longer be judged
    /// retrospectively; judge them against the model's count instead (or drop them when a removed
    /// promotion leaves slack about its sibling promotions).
    fn settle_claims(&mut self, rep: &mut Report) {
        let pending: Vec<RMove> = self.legal.iter().cloned().filter(|l| (self.mask >> l.to) & 1 == 1 && !self.yielded.contains(l)).collect();
        let slack = pending.iter().any(|l| self.excusable(l) && !self.removed_exact.contains(l) && (self.removed_masks >> l.to) & 1 == 0);
        let expected_now = pending.iter().filter(|l| !self.excusable(l)).count();
        if !slack {
            let total = self.yielded.len();
            for (l, _sh, at, mid) in self.claims.iter() {
                rep.eval();
                // items yielded since the claim plus what the model says is still to come
                let actual = (total - at) + expected_now;
                if *l != actual {
                    let when = if *at == self.seg_start {
                        if self.seg_start == 0 {
                            "fresh"
                        } else {
                            "after-new-mask"
                        }
                    } else if *mid {
                        "mid-promotion"
                    } else {
                        "mid-iteration"
                    };
                    rep.violation(&format!("C14/len/{}", when), format!("len() claimed {} when {} had been yielded; the model counts {} still to come under this mask ; {}", l, at, actual, self.ctx()));
                    break;
                }
            }
        } else {
            rep.count("abst_len_claim_with_sibling_promotion_slack");
        }
        self.claims.clear();
    }

    fn on_next(&mut self, r: Option<chess::ChessMove>, rep: &mut Report) {
        rep.count("op_next");
        match r {
            Some(lm) => {
                let m = model_move(lm);
                self.trace.push(m.uci());
                if !self.legal.contains(&m) {
                    rep.violation("C14/yielded-illegal-move", format!("{} ; {}", m.uci(), self.ctx()));
                    self.dead = true;
                }
                if self.yielded.contains(&m) {
                    rep.violation(&format!("C14/yielded-twice/{}", self.kind_of(&m)), format!("{} ; {}", m.uci(), self.ctx()));
                    self.dead = true;
                }
                if (self.mask >> m.to) & 1 == 0 {
                    rep.violation("C14/yielded-off-mask", format!("{} ; {}", m.uci(), self.ctx()));
                }
                if self.removed_exact.contains(&m) {
                    rep.violation(&format!("C14/removed-move-yielded/{}", self.kind_of(&m)), format!("{} ; {}", m.uci(), self.ctx()));
                }
                if (self.removed_masks >> m.to) & 1 == 1 {
                    rep.violation("C14/removed-destination-yielded", format!("{} ; {}", m.uci(), self.ctx()));
                }
                self.yielded.push(m);
                if self.yielded.len() > 256 {
                    rep.violation("C14/more-than-256-items", self.ctx());
                    self.dead = true;
                }
            }
            None => {
                self.trace.push("None".to_string());
                self.close_segment(rep);
            }
        }
    }

    fn close_segment(&mut self, rep: &mut Report) {
        rep.count("ev_segments_closed");
        // every not-yet-yielded legal move on the mask must be excusable
        let missing: Vec<RMove> = self.legal.iter().cloned().filter(|l| (self.mask >> l.to) & 1 == 1 && !self.yielded.contains(l) && !self.excusable(l)).collect();
        if !missing.is_empty() {
            let k = self.kind_of(&missing[0]);
            let after_removal = if self.removed_exact.is_empty() && self.removed_masks == 0 { "plain" } else { "after-removal" };
            rep.violation(
                &format!("C14/missing-on-mask/{}/{}", k, after_removal),
                format!("mask exhausted but {} never yielded ; {}", missing.iter().map(|m| m.uci()).collect::<Vec<_>>().join(" "), self.ctx()),
            );
        }
        // every claim of this segment must equal the number of items yielded after it in this segment
        let total = self.yielded.len();
        for (l, _sh, at, mid) in self.claims.iter() {
            let actual = total - at;
            rep.eval();
            if *l != actual {
                let when = if *at == self.seg_start {
                    if self.seg_start == 0 {
                        "fresh"
                    } else {
                        "after-new-mask"
                    }
                } else if *mid {
                    "mid-promotion"
                } else {
                    "mid-iteration"
                };
                rep.violation(&format!("C14/len/{}", when), format!("len() claimed {} when {} had been yielded, but {} more followed under this mask ; {}", l, at, actual, self.ctx()));
                break;
            }
        }
        self.claims.clear();
        self.seg_start = total;
    }

    fn finish(&mut self, rep: &mut Report) {
        // after the final all-squares mask: everything legal and not excusable was yielded exactly once
        let missing: Vec<RMove> = self.legal.iter().cloned().filter(|l| !self.yielded.contains(l) && !self.excusable(l)).collect();
        if !missing.is_empty() {
            rep.violation("C14/union-incomplete", format!("never yielded: {} ; {}", missing.iter().map(|m| m.uci()).collect::<Vec<_>>().join(" "), self.ctx()));
        }
    }
}

fn set_of(v: &[RMove], pick: impl Fn(&RMove) -> bool) -> u64 {
    v.iter().filter(|m| pick(m)).fold(0u64, |a, m| a | 1u64 << m.to)
}

pub struct C14 {
    pub variant: Variant,
}

impl C14 {
    fn script(&self, n: &Node, rep: &mut Report, rng: &mut Rng, sample: bool) {
        let p = n.p;
        let legal = n.legal.to_vec();
        let mut g = MoveGen::new_legal(n.b);
        let mut a = Automaton {
            fen: p.fen(),
            p,
            legal: legal.clone(),
            removed_pairs: vec![],
            removed_exact: vec![],
            removed_masks: 0,
            yielded: vec![],
            mask: !0u64,
            claims: vec![],
            seg_start: 0,
            trace: vec![],
            dead: false,
        };
        rep.count("ev_generators");
        rep.max("max_slots_used", g.verif_slots() as u64);
        a.query(&g, rep);
        // ---- removals (before the first next())
        let nrem = *rng.pick(&[0usize, 0, 1, 1, 2, 3]);
        for _ in 0..nrem {
            if rng.chance(3, 4) && !legal.is_empty() {
                // remove a move: prefer e.p. captures and promotions
                let special: Vec<RMove> = legal.iter().cloned().filter(|m| p.is_ep_capture(*m) || m.promo != 0).collect();
                let m = if !special.is_empty() && rng.chance(2, 3) {
                    *rng.pick(&special)
                } else if rng.chance(9, 10) {
                    *rng.pick(&legal)
                } else {
                    RMove::new(rng.below(64) as u8, rng.below(64) as u8, 0)
                };
                a.settle_claims(rep);
                let r = g.remove_move(lib_move(m));
                rep.count("op_remove_move");
                if p.is_ep_capture(m) {
                    rep.count("ev_removed_ep_captures");
                    if legal.iter().any(|x| x.from == m.from && !p.is_ep_capture(*x)) {
                        rep.count("ev_removed_ep_captures_pawn_has_other_moves");
                    }
                } else if m.promo != 0 {
                    rep.count("ev_removed_promotions");
                }
                a.trace.push(format!("remove_move({})={}", m.uci(), r));
                a.removed_pairs.push((m.from, m.to));
                a.removed_exact.push(m);
            } else {
                let mask = match rng.below(4) {
                    0 => set_of(&legal, |m| p.sq[m.to as usize] != 0),
                    1 => 1u64 << rng.below(64),
                    2 => rng.next() & rng.next(),
                    _ => {
                        if legal.is_empty() {
                            0
                        } else {
                            1u64 << rng.pick(&legal).to
                        }
                    }
                };
                a.settle_claims(rep);
                g.remove_mask(BitBoard(mask));
                rep.count("op_remove_mask");
                a.trace.push(format!("remove_mask({:x})", mask));
                a.removed_masks |= mask;
            }
            a.query(&g, rep);
        }
        // ---- mask sequence, each iterated to exhaustion, the last one being "all squares"
        let nmasks = *rng.pick(&[0usize, 1, 1, 2, 2, 3, 4]);
        if nmasks >= 2 {
            rep.count("ev_generators_with_2plus_masks");
        }
        let mut masks: Vec<u64> = vec![];
        for _ in 0..nmasks {
            masks.push(match rng.below(7) {
                0 => set_of(&legal, |m| p.sq[m.to as usize] != 0), // captures
                1 => 1u64 << rng.below(64),
                2 => 0xffu64 << (8 * rng.below(8)),
                3 => 0,
                4 => rng.next(),
                5 => set_of(&legal, |m| m.promo != 0 || p.is_ep_capture(*m)),
                _ => rng.next() & rng.next(),
            });
        }
        masks.push(!0u64);
        for (i, mk_) in masks.iter().enumerate() {
            let first_plain = i == 0 && nmasks == 0;
            if !first_plain {
                a.settle_claims(rep);
                g.set_iterator_mask(BitBoard(*mk_));
                rep.count("op_set_iterator_mask");
                a.trace.push(format!("mask({:x})", mk_));
            }
            a.mask = *mk_;
            a.query(&g, rep);
            // removals may also come after a mask has been set and in the middle of an iteration: what has
            // not been yielded yet and is not excluded must still come, under this mask or a later one
            let mut late_removals = if rng.chance(1, 4) { 1 + rng.below(2) } else { 0 };
            let mut at_step = if rng.chance(1, 2) { 0 } else { 1 + rng.below(6) };
            let mut step = 0usize;
            loop {
                if late_removals > 0 && step == at_step && !legal.is_empty() {
                    late_removals -= 1;
                    at_step += 1 + rng.below(4);
                    a.settle_claims(rep);
                    if rng.chance(2, 3) {
                        let m = *rng.pick(&legal);
                        let r = g.remove_move(lib_move(m));
                        rep.count("op_remove_move");
                        rep.count(if step == 0 { "ev_removals_after_mask_before_iteration" } else { "ev_removals_mid_iteration" });
                        a.trace.push(format!("remove_move({})={}", m.uci(), r));
                        a.removed_pairs.push((m.from, m.to));
                        a.removed_exact.push(m);
                    } else {
                        let mask = 1u64 << rng.pick(&legal).to | if rng.chance(1, 3) { rng.next() & rng.next() & rng.next() } else { 0 };
                        g.remove_mask(BitBoard(mask));
                        rep.count("op_remove_mask");
                        rep.count(if step == 0 { "ev_removals_after_mask_before_iteration" } else { "ev_removals_mid_iteration" });
                        a.trace.push(format!("remove_mask({:x})", mask));
                        a.removed_masks |= mask;
                    }
                    a.query(&g, rep);
                }
                let r = g.next();
                let done = r.is_none();
                a.on_next(r, rep);
                if a.dead || done {
                    break;
                }
                a.query(&g, rep);
                step += 1;
            }
            if a.dead {
                break;
            }
            // an exhausted iterator stays exhausted under the same mask
            if g.next().is_some() {
                rep.violation("C14/yield-after-exhaustion", a.ctx());
            }
        }
        if !a.dead {
            a.finish(rep);
        }
        // EMPTY constant sanity (keeps the import honest)
        debug_assert!(EMPTY.0 == 0);
        rep.seen(hash_bytes(a.trace.join(" ").as_bytes()) ^ hash_bytes(&pack(p, p.ep)));
        if sample {
            let t = a.ctx();
            rep.sample(if t.len() > 600 { format!("{}...", &t[..600]) } else { t });
        }
    }
}

/// The generator is a standard `Iterator`: whatever way a caller consumes it (nth, skip, step_by, count,
/// last, take + rest, size_hint - any of which an implementation may override for speed) must agree with
/// plain `next()` calls, also past the end and with a mask set.
fn adaptor_equivalences(b: &Board, rep: &mut Report, rng: &mut Rng) {
    let base: Vec<ChessMove> = MoveGen::new_legal(b).collect();
    let len = base.len();
    rep.count("ev_adaptor_rounds");
    let fen = || format!("{}", b);
    for k in [0usize, 1, len.saturating_sub(1), len, len + 1, len + 7, rng.below(len + 2), 1 << 20, (1usize << 32) + 1, usize::MAX].iter() {
        let mut it = MoveGen::new_legal(b);
        let got = it.nth(*k);
        let want = base.get(*k).cloned();
        let rest: Vec<ChessMove> = it.collect();
        let want_rest: Vec<ChessMove> = if *k < len { base[*k + 1..].to_vec() } else { vec![] };
        rep.evaluations += 1;
        if got != want || rest != want_rest {
            rep.violation("C14/adaptor/nth", format!("nth({}) = {:?} then {} more; next()-iteration gives {:?} then {} more ; fen={}", k, got, rest.len(), want, want_rest.len(), fen()));
        }
        let sk: Vec<ChessMove> = MoveGen::new_legal(b).skip(*k).collect();
        let want_sk: Vec<ChessMove> = if *k < len { base[*k..].to_vec() } else { vec![] };
        if sk != want_sk {
            rep.violation("C14/adaptor/skip", format!("skip({}) yields {} moves, want {} ; fen={}", k, sk.len(), want_sk.len(), fen()));
        }
    }
    rep.evaluations += 4;
    if MoveGen::new_legal(b).count() != len {
        rep.violation("C14/adaptor/count", format!("count() != {} ; fen={}", len, fen()));
    }
    if MoveGen::new_legal(b).last() != base.last().cloned() {
        rep.violation("C14/adaptor/last", format!("fen={}", fen()));
    }
    let st: Vec<ChessMove> = MoveGen::new_legal(b).step_by(3).collect();
    if st != base.iter().cloned().step_by(3).collect::<Vec<_>>() {
        rep.violation("C14/adaptor/step_by", format!("fen={}", fen()));
    }
    let mut it = MoveGen::new_legal(b);
    let head: Vec<ChessMove> = it.by_ref().take(2).collect();
    let hint = it.size_hint();
    let tail: Vec<ChessMove> = it.collect();
    if head.iter().chain(tail.iter()).cloned().collect::<Vec<_>>() != base || hint != (tail.len(), Some(tail.len())) {
        rep.violation("C14/adaptor/take-then-rest", format!("size_hint {:?}, {} + {} moves, want {} ; fen={}", hint, head.len(), tail.len(), len, fen()));
    }
    // a generator that has already handed out some moves - possibly one to three of a promotion group -
    // consumed the rest of the way by each kind of consumer (external, internal / fold-based, positional)
    if len > 0 {
        let firsts: Vec<usize> = base.iter().enumerate().filter(|(_, m)| m.get_promotion() == Some(chess::Piece::Queen)).map(|(i, _)| i).collect();
        let mut js: Vec<usize> = vec![1, rng.below(len) + 1];
        if !firsts.is_empty() {
            let f = *rng.pick(&firsts);
            js.push(f + 1 + rng.below(3));
            js.push(f + 1);
        }
        for j in js.into_iter().filter(|j| *j <= len) {
            let fresh = |j: usize| {
                let mut it = MoveGen::new_legal(b);
                for _ in 0..j {
                    it.next();
                }
                it
            };
            let want: Vec<ChessMove> = base[j..].to_vec();
            rep.evaluations += 7;
            rep.count("ev_adaptor_rounds_after_partial_consumption");
            let c: Vec<ChessMove> = fresh(j).collect();
            let f: Vec<ChessMove> = fresh(j).fold(vec![], |mut v, m| {
                v.push(m);
                v
            });
            let mut fe: Vec<ChessMove> = vec![];
            fresh(j).for_each(|m| fe.push(m));
            let hs: std::collections::HashSet<ChessMove> = fresh(j).collect();
            let claimed = fresh(j).len();
            let sig = |what: &str, got: usize| format!("after {} next() calls {} gives {} moves, plain iteration {} ; fen={}", j, what, got, want.len(), fen());
            if c != want {
                rep.violation("C14/adaptor/partial/collect", sig("collect()", c.len()));
            }
            if f != want {
                rep.violation("C14/adaptor/partial/fold", sig("fold()", f.len()));
            }
            if fe != want {
                rep.violation("C14/adaptor/partial/for_each", sig("for_each()", fe.len()));
            }
            if fresh(j).count() != want.len() {
                rep.violation("C14/adaptor/partial/count", sig("count()", fresh(j).count()));
            }
            if hs.len() != want.len() || want.iter().any(|m| !hs.contains(m)) {
                rep.violation("C14/adaptor/partial/collect-set", sig("collect::<HashSet>()", hs.len()));
            }
            if claimed != want.len() {
                rep.violation("C14/adaptor/partial/len", sig("len()", claimed));
            }
            if fresh(j).last() != want.last().cloned() || fresh(j).max_by_key(|m| (m.get_dest().to_index(), m.get_source().to_index())) != want.iter().cloned().max_by_key(|m| (m.get_dest().to_index(), m.get_source().to_index())) {
                rep.violation("C14/adaptor/partial/last-or-max", sig("last()/max_by_key()", 0));
            }
            for k in [0usize, 1, 2, 3, 4, want.len().saturating_sub(1), want.len()].iter() {
                let mut it = fresh(j);
                let got = it.nth(*k);
                let after = it.len();
                let rest: Vec<ChessMove> = it.collect();
                let want_rest: Vec<ChessMove> = if *k < want.len() { want[*k + 1..].to_vec() } else { vec![] };
                rep.evaluations += 1;
                if got != want.get(*k).cloned() || rest != want_rest || after != want_rest.len() {
                    rep.violation("C14/adaptor/partial/nth", format!("after {} next() calls nth({}) = {:?}, then len() {} and {} more moves; plain iteration gives {:?} and {} more ; fen={}", j, k, got, after, rest.len(), want.get(*k), want_rest.len(), fen()));
                }
            }
        }
    }
    // the same under a mask
    if len > 0 {
        let mask = BitBoard(1u64 << base[rng.below(len)].get_dest().to_index()) | BitBoard(rng.next() & rng.next());
        let mut it = MoveGen::new_legal(b);
        it.set_iterator_mask(mask);
        let masked: Vec<ChessMove> = it.collect();
        for k in [0usize, masked.len().saturating_sub(1), masked.len(), masked.len() + 3].iter() {
            let mut it = MoveGen::new_legal(b);
            it.set_iterator_mask(mask);
            let got = it.nth(*k);
            rep.evaluations += 1;
            if got != masked.get(*k).cloned() {
                rep.violation("C14/adaptor/nth-under-mask", format!("nth({}) = {:?} want {:?} ; mask {:x} fen={}", k, got, masked.get(*k), mask.0, fen()));
            }
        }
    }
}

impl NodeMon for C14 {
    fn through_rights_divergence(&self) -> bool {
        true
    }
    fn node(&mut self, n: &Node, rep: &mut Report, rng: &mut Rng) {
        if !same_core(&read_board(n.b), n.p) {
            return;
        }
        if self.variant == Variant::Miri || rng.chance(1, 4) {
            adaptor_equivalences(n.b, rep, rng);
        }
        let k = if self.variant == Variant::Miri { 1 } else { 3 };
        for i in 0..k {
            self.script(n, rep, rng, n.ply == 2 && i == 0 && rep.samples.len() < 6);
        }
    }
}

pub fn run_c14(ctx: &Ctx, rep: &mut Report) {
    let miri = ctx.variant == Variant::Miri;
    let corpus = corpus_positions();
    let n = ctx.budget(4000, 50_000, 2, 400);
    ctx.cases(rep, "play", n, |gid, rng, rep| {
        // promotions on several files, two e.p. capturers, pawns with both e.p. and ordinary moves
        let start = match rng.below(6) {
            0 => crate::synth::scenario_retry(rng, 13),
            1 => crate::synth::scenario_retry(rng, 6),
            2 => crate::synth::scenario_retry(rng, 9),
            3 => Some(crate::synth::synth_ep(rng)),
            _ => None,
        }
        .unwrap_or_else(|| mixed_start(rng, gid, &corpus));
        let cfg = WalkCfg { max_plies: if miri { 3 } else { rng.range(4, 40) }, null_per_mille: 0, stop_on_divergence: true, follow_library: false, echo_per_mille: 50 };
        let mut mon = C14 { variant: ctx.variant };
        playout(&start, &cfg, rng, &mut mon, rep);
    });
}
