//! Per-worker report: counters, violations (de-duplicated by signature), samples, distinct-case
//! set, recent-event ring buffer.  Emitted as JSON lines on stdout.
use std::collections::{BTreeMap, HashSet, VecDeque};
use std::io::Write;

pub fn jstr(s: &str) -> String {
    let mut o = String::with_capacity(s.len() + 2);
    o.push('"');
    for c in s.chars() {
        match c {
            '"' => o.push_str("\\\""),
            '\\' => o.push_str("\\\\"),
            '\n' => o.push_str("\\n"),
            '\r' => o.push_str("\\r"),
            '\t' => o.push_str("\\t"),
            c if (c as u32) < 0x20 => o.push_str(&format!("\\u{:04x}", c as u32)),
            c => o.push(c),
        }
    }
    o.push('"');
    o
}

/// lossy, always-valid rendering of arbitrary bytes for reports
pub fn show_bytes(b: &[u8]) -> String {
    let mut o = String::new();
    for &x in b {
        if x >= 0x20 && x < 0x7f && x != b'\\' {
            o.push(x as char);
        } else {
            o.push_str(&format!("\\x{:02x}", x));
        }
    }
    o
}

pub struct Violation {
    pub sig: String,
    pub detail: String,
    pub case: u64,
}

pub struct Report {
    pub prop: String,
    pub counters: BTreeMap<String, u64>,
    pub maxima: BTreeMap<String, u64>,
    pub violations: Vec<Violation>,
    pub viol_counts: BTreeMap<String, u64>,
    pub samples: Vec<String>,
    pub sample_cap: usize,
    pub distinct: HashSet<u64>,
    pub evaluations: u64,
    pub events: VecDeque<String>,
    pub cur_case: u64,
    pub notes: Vec<String>,
}

impl Report {
    pub fn new(prop: &str) -> Report {
        Report {
            prop: prop.to_string(),
            counters: BTreeMap::new(),
            maxima: BTreeMap::new(),
            violations: vec![],
            viol_counts: BTreeMap::new(),
            samples: vec![],
            sample_cap: 8,
            distinct: HashSet::new(),
            evaluations: 0,
            events: VecDeque::new(),
            cur_case: 0,
            notes: vec![],
        }
    }
    #[inline]
    pub fn count(&mut self, k: &str) {
        self.add(k, 1);
    }
    #[inline]
    pub fn add(&mut self, k: &str, n: u64) {
        if let Some(v) = self.counters.get_mut(k) {
            *v += n;
        } else {
            self.counters.insert(k.to_string(), n);
        }
    }
    pub fn get(&self, k: &str) -> u64 {
        *self.counters.get(k).unwrap_or(&0)
    }
    pub fn max(&mut self, k: &str, v: u64) {
        let e = self.maxima.entry(k.to_string()).or_insert(0);
        if v > *e {
            *e = v;
        }
    }
    #[inline]
    pub fn eval(&mut self) {
        self.evaluations += 1;
    }
    #[inline]
    pub fn seen(&mut self, h: u64) {
        self.distinct.insert(h);
    }
    pub fn event(&mut self, e: String) {
        if self.events.len() >= 48 {
            self.events.pop_front();
        }
        self.events.push_back(e);
    }
    pub fn sample(&mut self, s: String) {
        if self.samples.len() < self.sample_cap {
            self.samples.push(s);
        }
    }
    /// Record a violation. `sig` = monitor/sub-oracle/discriminator; `detail` = free text (witness).
    pub fn violation(&mut self, sig: &str, detail: String) {
        let n = self.viol_counts.entry(sig.to_string()).or_insert(0);
        *n += 1;
        if *n <= 3 && self.violations.len() < 60 {
            let mut d = detail;
            if !self.events.is_empty() {
                d.push_str(" || last events: ");
                let ev: Vec<&String> = self.events.iter().rev().take(12).collect();
                for e in ev.iter().rev() {
                    d.push_str(e);
                    d.push_str(" ; ");
                }
            }
            self.violations.push(Violation { sig: sig.to_string(), detail: d, case: self.cur_case });
        }
    }
    pub fn total_violations(&self) -> u64 {
        self.viol_counts.values().sum()
    }

    pub fn emit(&self, out_dir: Option<&str>, shard: usize) {
        let so = std::io::stdout();
        let mut o = so.lock();
        for v in &self.violations {
            let _ = writeln!(
                o,
                "{{\"t\":\"viol\",\"sig\":{},\"case\":{},\"detail\":{}}}",
                jstr(&v.sig),
                v.case,
                jstr(&v.detail)
            );
        }
        let mut s = String::from("{\"t\":\"summary\"");
        s.push_str(&format!(",\"prop\":{},\"shard\":{},\"evaluations\":{}", jstr(&self.prop), shard, self.evaluations));
        s.push_str(",\"counters\":{");
        let mut first = true;
        for (k, v) in &self.counters {
            if !first {
                s.push(',');
            }
            first = false;
            s.push_str(&format!("{}:{}", jstr(k), v));
        }
        s.push_str("},\"maxima\":{");
        first = true;
        for (k, v) in &self.maxima {
            if !first {
                s.push(',');
            }
            first = false;
            s.push_str(&format!("{}:{}", jstr(k), v));
        }
        s.push_str("},\"viol_counts\":{");
        first = true;
        for (k, v) in &self.viol_counts {
            if !first {
                s.push(',');
            }
            first = false;
            s.push_str(&format!("{}:{}", jstr(k), v));
        }
        s.push_str("},\"samples\":[");
        first = true;
        for x in &self.samples {
            if !first {
                s.push(',');
            }
            first = false;
            s.push_str(&jstr(x));
        }
        s.push_str("],\"notes\":[");
        first = true;
        for x in &self.notes {
            if !first {
                s.push(',');
            }
            first = false;
            s.push_str(&jstr(x));
        }
        s.push_str(&format!("],\"distinct_local\":{}", self.distinct.len()));
        match out_dir {
            Some(d) => {
                // binary u64 little-endian, sorted
                let mut v: Vec<u64> = self.distinct.iter().cloned().collect();
                v.sort_unstable();
                let mut bytes = Vec::with_capacity(v.len() * 8);
                for x in v {
                    bytes.extend_from_slice(&x.to_le_bytes());
                }
                let path = format!("{}/distinct_{}.bin", d, shard);
                if let Err(e) = std::fs::write(&path, &bytes) {
                    s.push_str(&format!(",\"distinct_file_error\":{}", jstr(&e.to_string())));
                } else {
                    s.push_str(&format!(",\"distinct_file\":{}", jstr(&path)));
                }
            }
            None => {
                // small runs (Miri, isolation on): inline
                s.push_str(",\"distinct_inline\":[");
                let mut first = true;
                for x in self.distinct.iter().take(200_000) {
                    if !first {
                        s.push(',');
                    }
                    first = false;
                    s.push_str(&format!("\"{:x}\"", x));
                }
                s.push(']');
            }
        }
        s.push('}');
        let _ = writeln!(o, "{}", s);
        let _ = o.flush();
    }
}

pub fn hash_bytes(b: &[u8]) -> u64 {
    let mut h: u64 = 0xcbf29ce484222325;
    for &x in b {
        h ^= x as u64;
        h = h.wrapping_mul(0x100000001b3);
    }
    h ^= h >> 32;
    h.wrapping_mul(0x9E3779B97F4A7C15)
}
